#!/bin/bash
# usage: tools/eval_mutant.sh <patch.diff> <ID> [<ID> ...]
# applies the patch to /repo, runs the repo's 64 unit tests and the given quick checks, restores /repo.
set -u
PATCH=$(readlink -f "$1"); shift
cd ${REPO:-/repo} || exit 3
if [ -n "$(git status --porcelain --untracked-files=no)" ]; then echo "REPO DIRTY - refusing"; exit 3; fi
restore() { git -C ${REPO:-/repo} checkout -- . ; }
trap restore EXIT
git apply "$PATCH" || { echo "PATCH DOES NOT APPLY"; exit 3; }
echo "== unit tests with the change"
[ -n "${SKIP_UNIT:-}" ] && echo "(skipped: already run when the change was confirmed)" || CARGO_NET_OFFLINE=true cargo test --workspace --lib --bins --no-fail-fast --offline 2>&1 | grep -E "^test result: .* [1-9][0-9]* (passed|failed)|^error" | head -3
cd ${VERIFDIR:-/verif}
for id in "$@"; do
  echo "== ./check $id quick"
  ./check "$id" quick 2>&1 | grep -E "^\[C[0-9]+\] (quick|OK)|VIOLATION|INCONCLUSIVE|violation:" | cut -c1-330 | head -6
  echo "exit=${PIPESTATUS[0]}"
done
