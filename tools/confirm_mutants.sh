#!/bin/bash
# usage: WT=/tmp/w4_<ID> tools/confirm_mutants.sh <ID>  (worktree with _seeded/mutant_{a,b}.diff and demo_{a,b}.rs; writes out/confirm4/<ID>.txt)
# confirm the demos of one worktree: pass on clean tree, fail with the mutant
id=$1; wt=/tmp/w4_$id; out=/verif/out/confirm4/$id.txt; : > $out
cd $wt || exit 1
for m in a b; do
  [ -f _seeded/mutant_$m.diff ] || { echo "$id $m: no diff" >> $out; continue; }
  git checkout -q -- src; mkdir -p tests; cp _seeded/demo_$m.rs tests/demo_$m.rs
  rel=""; grep -qi "\-\-release" _seeded/NOTES.md && grep -qi "demo_$m.*--release\|needs.*release" _seeded/NOTES.md && rel=""
  CARGO_NET_OFFLINE=true cargo test --offline --test demo_$m > /tmp/confirm_${id}_${m}_clean.log 2>&1; c=$?
  git apply _seeded/mutant_$m.diff || { echo "$id $m: patch does not apply" >> $out; continue; }
  CARGO_NET_OFFLINE=true cargo test --offline --lib > /tmp/confirm_${id}_${m}_unit.log 2>&1; u=$?
  CARGO_NET_OFFLINE=true cargo test --offline --test demo_$m > /tmp/confirm_${id}_${m}_mut.log 2>&1; d=$?
  git checkout -q -- src
  echo "$id $m: demo_clean_exit=$c unit_tests_with_mutant_exit=$u demo_with_mutant_exit=$d" >> $out
done
rm -rf target example.qwt256
