#!/bin/bash
# usage: WTPREFIX=/tmp/w5_ OUTDIR=/verif/out/confirm5 tools/confirm_mutants.sh <ID>
# confirms the demos of one worktree (<prefix><ID> with _seeded/mutant_{a,b}.diff and
# demo_{a,b}.rs): each demo must pass on the clean tree and fail with its mutant, and the
# 64 unit tests must pass with the mutant. Writes <OUTDIR>/<ID>.txt.
id=$1; wt=${WTPREFIX:-/tmp/w5_}$id; outdir=${OUTDIR:-/verif/out/confirm5}; mkdir -p $outdir; out=$outdir/$id.txt; : > $out
cd $wt || exit 1
export CARGO_NET_OFFLINE=true
for m in a b; do
  [ -f _seeded/mutant_$m.diff ] || { echo "$id $m: no diff" >> $out; continue; }
  git checkout -q -- src; mkdir -p tests; cp _seeded/demo_$m.rs tests/demo_$m.rs
  feat=""; grep -q "no-default-features.*demo_$m\|demo_$m.*no-default-features" _seeded/NOTES.md && feat="--no-default-features"
  cargo test --offline $feat --test demo_$m > $outdir/${id}_${m}_clean.log 2>&1; c=$?
  git apply _seeded/mutant_$m.diff || { echo "$id $m: patch does not apply" >> $out; continue; }
  cargo test --offline --lib --bins > $outdir/${id}_${m}_unit.log 2>&1; u=$?
  cargo test --offline $feat --test demo_$m > $outdir/${id}_${m}_mut.log 2>&1; d=$?
  git checkout -q -- src
  echo "$id $m: demo_clean_exit=$c unit_tests_with_mutant_exit=$u demo_with_mutant_exit=$d${feat:+ (demo run with $feat)}" >> $out
done
rm -rf target example.qwt256
