#!/bin/bash
# usage: tools/seed_sweep.sh <seed>...   - every quick check under each seed; prints only non-OK results
cd /verif
for seed in "$@"; do
  for n in $(seq -w 1 19); do
    id=C$n
    VERIF_SEED=$seed ./check $id quick > out/sweep_${seed}_$id.log 2>&1; rc=$?
    echo "seed=$seed $id rc=$rc $(tail -2 out/sweep_${seed}_$id.log | head -1 | sed 's/.*builds/builds/' | cut -c1-80)"
    [ $rc -ne 0 ] && grep -E "violation|VIOLATION|INCONCLUSIVE" out/sweep_${seed}_$id.log | head -4 | cut -c1-300
  done
done
echo SWEEP-DONE
