#!/usr/bin/env python3
"""Regenerates /verif/MANIFEST.json from the table below (kept in one place so it stays valid)."""
import json, os, subprocess
V = os.path.dirname(os.path.dirname(os.path.abspath(__file__)))
props = [json.loads(l) for l in open(os.path.join(V, "properties.jsonl"))]
ids = [p["id"] for p in props]

# id -> (technique, level text, level note, design ref)
CHECKS = {
 "C01": ("proptest differential testing against a Vec/position-list model, 4 aliases x 6 element types x 4 construction paths (new, From<Vec>, collect from exact and from inexact-size-hint iterators), five builds (optimised, debug assertions + overflow checks, crate feature prefetch off, AddressSanitizer, target-cpu=native)",
         "Generated-input search: every answer of len/sigma/get/rank/rank_prefetch/select on shape-generated sequences (lengths around every block/superblock/sample period, alphabets around powers of 2 and 4, full-width values) is compared with an independent model, in an optimised build and in a build with debug assertions and overflow checks; process-killing failures are caught by the driver. No claim beyond the cases explored: generated lengths <= 400 000 (quick) / 1 310 000 (thorough), plus one enumerated 2^27-symbol input with a closed-form oracle (16-bit superblock-id truncation).",
         "the model in harness/src/model.rs; proptest's generators; symbols fit the element type by construction", "3/C01"),
 "C02": ("proptest differential testing with generated Huffman tie seeds (cfg(qwt_verif) hook) and code-shape-forcing frequency profiles",
         "As C01 for the four HQWT aliases: absent symbols must answer None, every case carries a tie seed that fixes the builder's hash-order choices, a quarter of the cases are rebuilt under three more tie orders; frequency profiles include the cheapest profile forcing a maximal-depth 4-ary code; two enumerated inputs reach the deepest supported code (16 levels, n = 1 318 810 / 1 400 001). Codes longer than 32 bits (depth >= 17) are the recorded finding KF-2 and outside the generated range.",
         "the model; the hook only permutes ties (code lengths among equal frequencies, codes among equal lengths); symbol values <= 2^20 (table indexed by symbol)", "3/C02"),
 "C03": ("proptest differential testing of WT and HWT against the model, all element types, tie seeds for HWT",
         "As C01/C02 for the binary trees, including symbols wider than 32/64 bits for WT, single-symbol and empty inputs, and select on symbols above max(S).",
         "the model; the hook as in C02", "3/C03"),
 "C05": ("proptest differential testing of RSQVector256/512 against a quaternary model, all symbols 0..=255",
         "get/rank/select/occs/occs_smaller on generated quaternary sequences (explicit, weighted, runs, periodic, rare symbol, symbol absent from leading superblocks; lengths around 128..4096 multiples and the 8192-occurrence sampling period) compared with the model; every symbol 4..=255 must be rejected; enumerated 71.6 M-symbol vectors in which consecutive select samples of one symbol are 4 .. 264 superblocks apart, select asked around every sample.",
         "the model; generated lengths <= 1 000 000 quick / 8 000 000 thorough, plus enumerated periodic inputs of 2^27 + 70 001 and 2^28 + 70 001 symbols checked against closed-form answers", "3/C05"),
 "C06": ("proptest differential testing of RSNarrow and RSWide against a bit model",
         "get/rank1/rank0/select1/select0/totals on generated bit vectors (all densities, runs, all-ones blocks, counts of ones/zeros crossing multiples of 1024 and 8192 by -1/0/+1) compared with the model in five builds (optimised, debug assertions + overflow checks, crate feature prefetch off, AddressSanitizer, target-cpu=native); enumerated 5 Mbit very sparse / very dense vectors; bit vectors built from bools, pushes, typed position lists (also with duplicates), with_zeros + set, and from iterators with inexact size hints.",
         "the model; generated lengths <= 1 200 000 quick / 16 000 000 thorough; thorough adds a 2^32 + 20 603-bit sparse vector with closed-form answers", "3/C06"),
 "C07": ("proptest differential testing of DArray with a group grammar (dense / sparse / threshold 1024-one groups, complemented for select0)",
         "select1 (and select0) for every k on vectors assembled from 1024-one groups that are dense, sparse, exactly at the 65536-bit threshold or cluster+gap, in every order, plus len/count/get/iterators; built from bools and from typed position lists.",
         "the model; <= 4 groups quick / 8 thorough (vectors up to a few million bits); thorough adds a position list reaching beyond bit 2^32", "3/C07"),
 "C08": ("proptest stateful testing: operation histories over BitVectorMut interpreted against Vec<bool>",
         "Model-based testing over generated histories (push, append_bits, extend_with_zeros, set, set_bits, extend with bools/positions from exact, inexact-size-hint and non-fused iterators, single extends of more than 2^18 bits, conversions to and from the immutable BitVector, clone, clone_from into shorter and longer destinations of both types, rebuild) with observations after every step and exhaustive get_bits/position-iterator comparisons on small vectors.",
         "Vec<bool> model; arguments constructed inside the documented preconditions; KF-1 signature excluded (counted); thorough adds a vector with 2^32 + 1000 ones", "3/C08"),
 "C13": ("proptest stateful testing of QVectorBuilder / QVector over all 12 integer carrier types",
         "Generated push/extend/from_iter histories (exact, inexact-size-hint and non-fused iterators; single collects / extends of more than 2^18 symbols) with values over the whole range of each integer type; len/is_empty/get/iterators compared with the low two bits of every value.",
         "Vec<u8> model", "3/C13"),
 "C04": ("proptest API-totality testing: generated call lists with boundary-biased raw arguments on values obtained by every route, plus an enumerated method x boundary-argument sweep on empty/default/one-element values; crash isolation by the driver",
         "Every safe method of every public type is called with arguments from the whole domain (0, boundaries +-1, n+-2, count+-2, usize::MAX-k, symbols 0..=255 and far above max) on values obtained by construction, Default, Clone, bincode round trip and conversions, in an optimised build, in a build with debug assertions and overflow checks, and in an AddressSanitizer build. The model decides before each call whether a documented panic is permitted; any other panic, any Some for an invalid argument, and any process death (SIGSEGV, abort) is a violation. The enumerated part covers the finite sub-space method x 40 boundary arguments x 11 symbols on 738 empty/default/one-element values completely.",
         "the models; size arguments (with_capacity, with_zeros, extend_with_zeros) <= 2^22; hostile serialized bytes out of scope; reads that stay inside an allocation are only visible through wrong answers", "3/C04"),
 "C09": ("proptest differential testing of rank_prefetch vs rank vs model on all 8 quad aliases in three builds, with cross-build answer digests (feature prefetch on/off)",
         "rank_prefetch must equal rank (and the model) for valid and invalid (symbol, position) pairs; the same generated cases run in builds with the crate feature prefetch on and off and their per-case answer digests must be identical; lengths are biased to several 2048-symbol sampling periods and to k*2048 +- 1 where off-by-one sample layouts surface.",
         "the model; same seed => same cases in all builds (the build name is not mixed into the seed)", "3/C09"),
 "C10": ("proptest differential testing of every *_unchecked method against its checked twin on model-valid arguments, two builds with cross-build digests",
         "For every structure and every argument tuple of the plan that satisfies the documented precondition according to the model, the unchecked method must return the checked answer; run with and without debug assertions (a wrong debug_assert in an unchecked method is caught as a panic).",
         "the model decides validity; unsafe calls are only made inside the documented preconditions", "3/C10"),
 "C11": ("proptest round-trip testing: bincode serialize/deserialize, ==, byte-identical re-serialization, identical query digests",
         "Every serializable type (60 tree instantiations, 6 bit structures, 3 quad structures; empty and default values included) is serialized, deserialized, compared with ==, re-serialized to identical bytes and queried over a full plan whose digest must equal the original's (itself compared with the model).",
         "bincode 1.3.3 as used by the repository", "3/C11"),
 "C12": ("proptest stateful testing of iterators: call histories over {next, next_back, len} against a VecDeque model",
         "iter(), (&x).into_iter() and into_iter() of every tree kind are driven by generated histories, drained by a generated cyclic pattern and called 12 more times after exhaustion, with len() compared after every step; bit and quad iterators are checked for order, count, exact length and staying exhausted.",
         "VecDeque model", "3/C12"),
 "C14": ("proptest + counting global allocator: retained heap after construction against the stated space bound",
         "One-sided bound check on generated sizes n = 2^k + {-1,0,1,2,2^(k-1)} (just above a power of two maximises retained Vec slack) for all construction paths; evidence reports how much of the bound is used (most non-trivial cases use 90-100 %).",
         "live bytes requested from the allocator; bound constants stated in the evidence assumptions", "3/C14"),
 "C15": ("proptest + counting allocator: Huffman trees against the entropy bound computed from the input and against the plain tree built in the same process",
         "H0 is computed from the generated input; the Huffman tree's retained heap must stay below n*(H0+2)/8 (quad) or n*(H0+1)/8 (binary) times the C14 overhead factor plus per-level and table allowances, and below the plain tree's heap plus the same allowances; enumerated inputs cover the deepest codes, non-stationary 4 M-symbol inputs, one symbol with 2^20 + 100 / 2^21 + 100 occurrences, and dense 4^k alphabets with one heavy and otherwise exactly tied symbols.",
         "level data is bounded through retained heap minus allowances (looser than the statement by the table allowance)", "3/C15"),
 "C16": ("proptest + counting allocator: space_usage_byte() against live heap + size_of_val, with differential isolation of small components",
         "For every SpaceUsage type the reported size must match the measured size within 2 % + constants; small components (prefetch support, rank/select support, select0 inventories) are isolated by subtracting the sizes of a second structure over identical content; KiB/MiB/GiB are checked as exact scalings; the blanket impls are measured on Box<[T]> of values of unequal size and on Vec<u64> with spare capacity, and a DArray<true> is read back from its bytes as DArray<false>.",
         "live bytes requested from the allocator; tolerances stated in the evidence assumptions", "3/C16"),
 "C17": ("exhaustive enumeration of the select-in-byte table cover + proptest over words, slices, shifts and byte strings against bit loops / stable sorts",
         "select_in_word is checked on every byte value at every byte position with every in-byte rank in three contexts (complete cover of the 2048-entry table, every k for each word), then on generated words; select_in_word_u128, popcnt_wide<N>, msb (12 primitive types), stable_partition_of_4/2 (6 element types, every shift below the width, slices up to 2^20 + 3 elements quick / 2^22 thorough) and text_remap are compared with obviously-correct references, also in a build with -C target-cpu=native.",
         "reference implementations in harness/src/props/c17.rs (bit loops, std stable sort, BTreeSet)", "3/C17"),
 "C18": ("compile-time Send+Sync probe crate + proptest purity checks + std::thread::scope stress with per-thread answer digests",
         "A separate crate asserting Send + Sync for every public query structure, every iterator / view type they hand out and QVectorBuilder must compile. Sequentially, the bincode form must be byte-identical before and after query batches and a repeated batch must give the same digest. Concurrently, 2..16 threads released by a barrier query one shared value; every thread's digests (each answer also compared with the model) must equal the single-threaded digests. Interleavings are sampled by the OS scheduler, not enumerated: a race is detected only probabilistically.",
         "OS scheduler chooses interleavings; the structures contain no synchronisation a schedule-controlling runner could drive", "3/C18"),
 "C19": ("proptest metamorphic testing: construction paths, clones, neighbour sequences, element widths",
         "All construction paths of a type (including iterators with inexact size hints, multi-step extends, with_zeros + set, over-sized builders) are built from the same content and must give identical digests and (non-Huffman) compare equal; clones equal, clone_from into an edited, a much longer, a slightly longer and an empty destination equal and free of the destination's former content; the structure of a neighbour sequence (one element changed / appended / removed / two distinct adjacent swapped) must compare unequal for every path; trees are rebuilt in every wider element type against the same model.",
         "the models; bit vectors from positions are compared on the prefix ending at the last one", "3/C19"),
}


def entry(pid):
    t, text, note, ref = CHECKS[pid]
    return {"property_id": pid, "quick_cmd": f"./check {pid} quick", "thorough_cmd": f"./check {pid} thorough",
            "evidence_file": f"/verif/evidence/{pid}.json", "replay_cmd_template": f"./check {pid} --replay {{path}}",
            "engine": "qv", "level_claimed": {"category": "exploration", "text": text, "design_ref": f"DESIGN.md section {ref}"},
            "level_note": note, "technique": t}

hook_commits = ["1601969"]  # verif hook: deterministic Huffman tie-breaking behind cfg(qwt_verif)
m = {"version": 1, "setup_cmd": "./check --setup",
     "hooks": {"guard": "qwt_verif",
               "enable": "RUSTFLAGS=\"--cfg qwt_verif\" is set by ./check for every cargo build of /verif/harness, which path-depends on /repo",
               "baseline_off_cmd": "cd /repo && cargo test --workspace --lib --bins --no-fail-fast --offline",
               "source_commits": hook_commits, "add_only": True},
     "engines": [{"name": "qv", "path": "/verif/harness", "serves_properties": sorted(CHECKS),
                  "kind_free_text": "Rust crate (proptest 1.11 TestRunner with fixed seeds, reference models, adapters over every public type) driven by the python script /verif/check (builds fast/checked/noprefetch/asan/native profiles, shards, watchdog, crash isolation, evidence)"},
                 {"name": "fuzz", "path": "/verif/harness/fuzz", "serves_properties": ["C01", "C02", "C03", "C04", "C05", "C06", "C07", "C08", "C09", "C10", "C12"],
                  "kind_free_text": "cargo-fuzz / libFuzzer targets (ASan, with and without debug assertions) that decode bytes into the properties' own cases and run the same oracles; thorough tier only"}],
     "checks": [entry(p) for p in ids if p in CHECKS],
     "not_applicable": [{"property_id": p, "reason": "check under construction in this session (see DESIGN.md section 3); not yet claimed"} for p in ids if p not in CHECKS],
     "notes": "Exit codes: 0 held, 1 VIOLATION line printed, 2 inconclusive (build failure, watchdog, or a panic inside the harness itself). Known findings: /verif/known_findings.json (KF-1 under C08, KF-2 under C02 and C03). Seeded changes used to validate the checks: /verif/seeded (213, see DESIGN.md section 10). Thorough tiers add cargo-fuzz campaigns (ASan) for C01-C10 and C12 and huge-input probes for C06, C07, C08, C17."}
json.dump(m, open(os.path.join(V, "MANIFEST.json"), "w"), indent=1)
print("checks:", [c["property_id"] for c in m["checks"]])
