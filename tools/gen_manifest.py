#!/usr/bin/env python3
"""Regenerates /verif/MANIFEST.json from the table below (kept in one place so it stays valid)."""
import json, os, subprocess
V = os.path.dirname(os.path.dirname(os.path.abspath(__file__)))
props = [json.loads(l) for l in open(os.path.join(V, "properties.jsonl"))]
ids = [p["id"] for p in props]

# id -> (technique, level text, level note, design ref)
CHECKS = {
 "C01": ("proptest differential testing against a Vec/position-list model, 4 aliases x 6 element types x 3 construction paths, two build profiles",
         "Generated-input search: every answer of len/sigma/get/rank/rank_prefetch/select on shape-generated sequences (lengths around every block/superblock/sample period, alphabets around powers of 2 and 4, full-width values) is compared with an independent model, in an optimised build and in a build with debug assertions and overflow checks; process-killing failures are caught by the driver. No claim beyond the generated cases (lengths <= 70 000 quick / 600 000 thorough).",
         "the model in harness/src/model.rs; proptest's generators; symbols fit the element type by construction", "3/C01"),
 "C02": ("proptest differential testing with generated Huffman tie seeds (cfg(qwt_verif) hook) and code-shape-forcing frequency profiles",
         "As C01 for the four HQWT aliases: absent symbols must answer None, every case carries a tie seed that fixes the builder's hash-order choices, a quarter of the cases are rebuilt under three more tie orders; frequency profiles include the cheapest profile forcing a maximal-depth 4-ary code (depth <= 15 below n = 1.3M). Codes longer than 32 bits (depth >= 17) are outside the generated range.",
         "the model; the hook only permutes ties (code lengths among equal frequencies, codes among equal lengths); symbol values <= 2^20 (table indexed by symbol)", "3/C02"),
 "C03": ("proptest differential testing of WT and HWT against the model, all element types, tie seeds for HWT",
         "As C01/C02 for the binary trees, including symbols wider than 32/64 bits for WT, single-symbol and empty inputs, and select on symbols above max(S).",
         "the model; the hook as in C02", "3/C03"),
 "C05": ("proptest differential testing of RSQVector256/512 against a quaternary model, all symbols 0..=255",
         "get/rank/select/occs/occs_smaller on generated quaternary sequences (explicit, weighted, runs, periodic, rare symbol, symbol absent from leading superblocks; lengths around 128..4096 multiples and the 8192-occurrence sampling period) compared with the model; every symbol 4..=255 must be rejected.",
         "the model; lengths <= 200 000 quick / 4 000 000 thorough", "3/C05"),
 "C06": ("proptest differential testing of RSNarrow and RSWide against a bit model",
         "get/rank1/rank0/select1/select0/totals on generated bit vectors (all densities, runs, all-ones blocks, counts of ones/zeros crossing multiples of 1024 and 8192 by -1/0/+1) compared with the model in two build profiles.",
         "the model; lengths <= 300 000 quick / 6 000 000 thorough", "3/C06"),
 "C07": ("proptest differential testing of DArray with a group grammar (dense / sparse / threshold 1024-one groups, complemented for select0)",
         "select1 (and select0) for every k on vectors assembled from 1024-one groups that are dense, sparse, exactly at the 65536-bit threshold or cluster+gap, in every order, plus len/count/get/iterators; built from bools and from typed position lists.",
         "the model; <= 4 groups quick / 8 thorough (vectors up to a few million bits)", "3/C07"),
 "C08": ("proptest stateful testing: operation histories over BitVectorMut interpreted against Vec<bool>",
         "Model-based testing over generated histories (push, append_bits, extend_with_zeros, set, set_bits, extend with bools/positions, conversions, clone, rebuild) with observations after every step and exhaustive get_bits/position-iterator comparisons on small vectors.",
         "Vec<bool> model; arguments constructed inside the documented preconditions; KF-1 signature excluded (counted)", "3/C08"),
 "C13": ("proptest stateful testing of QVectorBuilder / QVector over all 12 integer carrier types",
         "Generated push/extend/from_iter histories with values over the whole range of each integer type; len/is_empty/get/iterators compared with the low two bits of every value.",
         "Vec<u8> model", "3/C13"),
}

def entry(pid):
    t, text, note, ref = CHECKS[pid]
    return {"property_id": pid, "quick_cmd": f"./check {pid} quick", "thorough_cmd": f"./check {pid} thorough",
            "evidence_file": f"/verif/evidence/{pid}.json", "replay_cmd_template": f"./check {pid} --replay {{path}}",
            "engine": "qv", "level_claimed": {"category": "exploration", "text": text, "design_ref": f"DESIGN.md section {ref}"},
            "level_note": note, "technique": t}

hook_commits = ["1601969"]
m = {"version": 1, "setup_cmd": "./check --setup",
     "hooks": {"guard": "qwt_verif",
               "enable": "RUSTFLAGS=\"--cfg qwt_verif\" is set by ./check for every cargo build of /verif/harness, which path-depends on /repo",
               "baseline_off_cmd": "cd /repo && cargo test --workspace --lib --bins --no-fail-fast --offline",
               "source_commits": hook_commits, "add_only": True},
     "engines": [{"name": "qv", "path": "/verif/harness", "serves_properties": sorted(CHECKS),
                  "kind_free_text": "Rust crate (proptest 1.11 TestRunner with fixed seeds, reference models, adapters over every public type) driven by the python script /verif/check (builds fast/checked/noprefetch profiles, shards, watchdog, crash isolation, evidence)"}],
     "checks": [entry(p) for p in ids if p in CHECKS],
     "not_applicable": [{"property_id": p, "reason": "check under construction in this session (see DESIGN.md section 3); not yet claimed"} for p in ids if p not in CHECKS],
     "notes": "Exit codes: 0 held, 1 VIOLATION line printed, 2 inconclusive (build failure/watchdog). Known findings: /verif/known_findings.json."}
json.dump(m, open(os.path.join(V, "MANIFEST.json"), "w"), indent=1)
print("checks:", [c["property_id"] for c in m["checks"]])
