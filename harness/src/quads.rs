//! Quad vectors: QVector, RSQVector256, RSQVector512 behind one enum, generators and the check.
use crate::model::QuadModel;
use crate::runner::{CheckResult, Ctx};
use crate::seqgen::boundary_len;
use crate::util::{note, Rng};
use crate::{ensure, fail};
use proptest::prelude::*;
use qwt::{AccessQuad, QVector, RSQVector256, RSQVector512, RankQuad, SelectQuad, SpaceUsage, WTSupport};
use serde::{Deserialize, Serialize};

#[derive(Clone, Copy, Debug, PartialEq, Eq, Hash, Serialize, Deserialize, PartialOrd, Ord)]
pub enum QuadKind {
    Qv,
    Rs256,
    Rs512,
}

impl QuadKind {
    pub fn name(self) -> &'static str {
        match self {
            QuadKind::Qv => "QVector",
            QuadKind::Rs256 => "RSQVector256",
            QuadKind::Rs512 => "RSQVector512",
        }
    }
}

/// element type used to carry the quad symbols into the constructor
#[derive(Clone, Copy, Debug, PartialEq, Eq, Hash, Serialize, Deserialize, PartialOrd, Ord)]
pub enum IntTy {
    U8,
    U16,
    U32,
    U64,
    Usize,
    U128,
    I8,
    I16,
    I32,
    I64,
    Isize,
    I128,
}

impl IntTy {
    pub const ALL: [IntTy; 12] = [
        IntTy::U8, IntTy::U16, IntTy::U32, IntTy::U64, IntTy::Usize, IntTy::U128,
        IntTy::I8, IntTy::I16, IntTy::I32, IntTy::I64, IntTy::Isize, IntTy::I128,
    ];
    pub const UNSIGNED: [IntTy; 6] = [IntTy::U8, IntTy::U16, IntTy::U32, IntTy::U64, IntTy::Usize, IntTy::U128];
    pub fn is_unsigned(self) -> bool {
        matches!(self, IntTy::U8 | IntTy::U16 | IntTy::U32 | IntTy::U64 | IntTy::Usize | IntTy::U128)
    }
}

/// Applies `$body` with `$t` bound to the Rust type and `$conv` a closure i128 -> $t (wrapping).
#[macro_export]
macro_rules! with_int_ty {
    ($ty:expr, $t:ident => $body:expr) => {
        match $ty {
            $crate::quads::IntTy::U8 => { type $t = u8; $body }
            $crate::quads::IntTy::U16 => { type $t = u16; $body }
            $crate::quads::IntTy::U32 => { type $t = u32; $body }
            $crate::quads::IntTy::U64 => { type $t = u64; $body }
            $crate::quads::IntTy::Usize => { type $t = usize; $body }
            $crate::quads::IntTy::U128 => { type $t = u128; $body }
            $crate::quads::IntTy::I8 => { type $t = i8; $body }
            $crate::quads::IntTy::I16 => { type $t = i16; $body }
            $crate::quads::IntTy::I32 => { type $t = i32; $body }
            $crate::quads::IntTy::I64 => { type $t = i64; $body }
            $crate::quads::IntTy::Isize => { type $t = isize; $body }
            $crate::quads::IntTy::I128 => { type $t = i128; $body }
        }
    };
}

#[derive(Clone, Copy, Debug, PartialEq, Eq, Hash, Serialize, Deserialize, PartialOrd, Ord)]
pub enum QuadHow {
    /// collect into a QVector, then `From<QVector>` (or the QVector itself)
    FromQVector(IntTy),
    /// `RSQVector::new(&[T])`, T unsigned (QVector: collect)
    NewSlice(IntTy),
    /// collect directly into the structure
    Collect(IntTy),
    /// `QVectorBuilder::with_capacity(n * num / 4)` (exact for num = 4, under- / over-estimated
    /// otherwise), pushes, `build()`, then `From<QVector>`
    Builder(u8),
    Default,
    /// collect directly into the structure from an iterator with an inexact size hint
    CollectLoose(IntTy, u8),
    /// `QVectorBuilder::new()`, then the symbols in pieces: `extend` from exact and loose
    /// iterators and single pushes; `build()`, then `From<QVector>`
    BuilderPieces(u8),
}

#[derive(Clone, PartialEq, Debug)]
pub enum QuadVal {
    Qv(QVector),
    Rs256(RSQVector256),
    Rs512(RSQVector512),
}

/// values of type T whose two low bits are the given symbols; `salt` fills the upper bits so
/// that values above 3 and negative values occur
pub fn carry<T: num_traits::PrimInt + 'static>(q: &[u8], salt: u64) -> Vec<T>
where
    i128: num_traits::AsPrimitive<T>,
{
    use num_traits::AsPrimitive;
    let mut r = Rng::new(salt);
    q.iter()
        .map(|&s| {
            let hi: i128 = if salt == 0 { 0 } else { (r.next_u128() as i128) & !3 };
            let v: i128 = hi | (s & 3) as i128;
            v.as_()
        })
        .collect()
}

impl QuadVal {
    pub fn build(kind: QuadKind, how: QuadHow, q: &[u8], salt: u64) -> QuadVal {
        match how {
            QuadHow::Default => match kind {
                QuadKind::Qv => QuadVal::Qv(QVector::default()),
                QuadKind::Rs256 => QuadVal::Rs256(RSQVector256::default()),
                QuadKind::Rs512 => QuadVal::Rs512(RSQVector512::default()),
            },
            QuadHow::FromQVector(ty) => {
                let qv: QVector = with_int_ty!(ty, T => carry::<T>(q, salt).into_iter().collect());
                match kind {
                    QuadKind::Qv => QuadVal::Qv(qv),
                    QuadKind::Rs256 => QuadVal::Rs256(RSQVector256::from(qv)),
                    QuadKind::Rs512 => QuadVal::Rs512(RSQVector512::from(qv)),
                }
            }
            QuadHow::Builder(num) => {
                let mut b = qwt::QVectorBuilder::with_capacity(q.len() * num as usize / 4);
                for &s in q {
                    b.push(s);
                }
                let qv = b.build();
                match kind {
                    QuadKind::Qv => QuadVal::Qv(qv),
                    QuadKind::Rs256 => QuadVal::Rs256(RSQVector256::from(qv)),
                    QuadKind::Rs512 => QuadVal::Rs512(RSQVector512::from(qv)),
                }
            }
            QuadHow::NewSlice(ty) => {
                macro_rules! news {
                    ($t:ty) => {{
                        let v = carry::<$t>(q, salt);
                        match kind {
                            QuadKind::Qv => QuadVal::Qv(v.iter().copied().collect()),
                            QuadKind::Rs256 => QuadVal::Rs256(RSQVector256::new(&v)),
                            QuadKind::Rs512 => QuadVal::Rs512(RSQVector512::new(&v)),
                        }
                    }};
                }
                match ty {
                    IntTy::U8 => news!(u8),
                    IntTy::U16 => news!(u16),
                    IntTy::U32 => news!(u32),
                    IntTy::U64 => news!(u64),
                    IntTy::Usize => news!(usize),
                    _ => news!(u128),
                }
            }
            QuadHow::CollectLoose(ty, mode) => with_int_ty!(ty, T => {
                let v = carry::<T>(q, salt);
                match kind {
                    QuadKind::Qv => QuadVal::Qv(crate::loose::loose_iter(v, mode).collect()),
                    QuadKind::Rs256 => QuadVal::Rs256(crate::loose::loose_iter(v, mode).collect()),
                    QuadKind::Rs512 => QuadVal::Rs512(crate::loose::loose_iter(v, mode).collect()),
                }
            }),
            QuadHow::BuilderPieces(mode) => {
                let mut b = qwt::QVectorBuilder::new();
                for (j, piece) in crate::loose::pieces(q, mode as u64).into_iter().enumerate() {
                    match (j + mode as usize) % 3 {
                        0 if piece.len() < 40 => {
                            for s in piece {
                                b.push(s);
                            }
                        }
                        1 => b.extend(piece),
                        _ => b.extend(crate::loose::loose_iter(piece, mode.wrapping_mul(37).wrapping_add(j as u8))),
                    }
                }
                let qv = b.build();
                match kind {
                    QuadKind::Qv => QuadVal::Qv(qv),
                    QuadKind::Rs256 => QuadVal::Rs256(RSQVector256::from(qv)),
                    QuadKind::Rs512 => QuadVal::Rs512(RSQVector512::from(qv)),
                }
            }
            QuadHow::Collect(ty) => with_int_ty!(ty, T => {
                let v = carry::<T>(q, salt);
                match kind {
                    QuadKind::Qv => QuadVal::Qv(v.into_iter().collect()),
                    QuadKind::Rs256 => QuadVal::Rs256(v.into_iter().collect()),
                    QuadKind::Rs512 => QuadVal::Rs512(v.into_iter().collect()),
                }
            }),
        }
    }
    pub fn kind(&self) -> QuadKind {
        match self {
            QuadVal::Qv(_) => QuadKind::Qv,
            QuadVal::Rs256(_) => QuadKind::Rs256,
            QuadVal::Rs512(_) => QuadKind::Rs512,
        }
    }
    pub fn len(&self) -> usize {
        match self {
            QuadVal::Qv(x) => x.len(),
            QuadVal::Rs256(x) => x.len(),
            QuadVal::Rs512(x) => x.len(),
        }
    }
    pub fn is_empty(&self) -> bool {
        match self {
            QuadVal::Qv(x) => x.is_empty(),
            QuadVal::Rs256(x) => x.is_empty(),
            QuadVal::Rs512(x) => x.is_empty(),
        }
    }
    pub fn get(&self, i: usize) -> Option<u8> {
        match self {
            QuadVal::Qv(x) => x.get(i),
            QuadVal::Rs256(x) => x.get(i),
            QuadVal::Rs512(x) => x.get(i),
        }
    }
    /// # Safety: i < len
    pub unsafe fn get_unchecked(&self, i: usize) -> u8 {
        match self {
            QuadVal::Qv(x) => x.get_unchecked(i),
            QuadVal::Rs256(x) => x.get_unchecked(i),
            QuadVal::Rs512(x) => x.get_unchecked(i),
        }
    }
    pub fn rank(&self, s: u8, i: usize) -> Option<Option<usize>> {
        match self {
            QuadVal::Qv(_) => None,
            QuadVal::Rs256(x) => Some(x.rank(s, i)),
            QuadVal::Rs512(x) => Some(x.rank(s, i)),
        }
    }
    /// # Safety: s <= 3, i <= len
    pub unsafe fn rank_unchecked(&self, s: u8, i: usize) -> Option<usize> {
        match self {
            QuadVal::Qv(_) => None,
            QuadVal::Rs256(x) => Some(x.rank_unchecked(s, i)),
            QuadVal::Rs512(x) => Some(x.rank_unchecked(s, i)),
        }
    }
    pub fn select(&self, s: u8, k: usize) -> Option<Option<usize>> {
        match self {
            QuadVal::Qv(_) => None,
            QuadVal::Rs256(x) => Some(x.select(s, k)),
            QuadVal::Rs512(x) => Some(x.select(s, k)),
        }
    }
    /// # Safety: s <= 3 and the occurrence exists
    pub unsafe fn select_unchecked(&self, s: u8, k: usize) -> Option<usize> {
        match self {
            QuadVal::Qv(_) => None,
            QuadVal::Rs256(x) => Some(x.select_unchecked(s, k)),
            QuadVal::Rs512(x) => Some(x.select_unchecked(s, k)),
        }
    }
    pub fn occs(&self, s: u8) -> Option<Option<usize>> {
        match self {
            QuadVal::Qv(_) => None,
            QuadVal::Rs256(x) => Some(x.occs(s)),
            QuadVal::Rs512(x) => Some(x.occs(s)),
        }
    }
    pub fn occs_smaller(&self, s: u8) -> Option<Option<usize>> {
        match self {
            QuadVal::Qv(_) => None,
            QuadVal::Rs256(x) => Some(x.occs_smaller(s)),
            QuadVal::Rs512(x) => Some(x.occs_smaller(s)),
        }
    }
    /// # Safety: s <= 3
    pub unsafe fn occs_unchecked(&self, s: u8) -> Option<(usize, usize)> {
        match self {
            QuadVal::Qv(_) => None,
            QuadVal::Rs256(x) => Some((x.occs_unchecked(s), x.occs_smaller_unchecked(s))),
            QuadVal::Rs512(x) => Some((x.occs_unchecked(s), x.occs_smaller_unchecked(s))),
        }
    }
    /// # Safety: s <= 3, i <= len
    pub unsafe fn rank_block_unchecked(&self, s: u8, i: usize) -> Option<usize> {
        match self {
            QuadVal::Qv(_) => None,
            QuadVal::Rs256(x) => Some(x.rank_block_unchecked(s, i)),
            QuadVal::Rs512(x) => Some(x.rank_block_unchecked(s, i)),
        }
    }
    pub fn prefetch(&self, p: usize) {
        match self {
            QuadVal::Qv(_) => {}
            QuadVal::Rs256(x) => {
                x.prefetch_info(p);
                x.prefetch_data(p);
            }
            QuadVal::Rs512(x) => {
                x.prefetch_info(p);
                x.prefetch_data(p);
            }
        }
    }
    pub fn iter(&self) -> Box<dyn Iterator<Item = u8> + '_> {
        match self {
            QuadVal::Qv(x) => Box::new(x.iter()),
            QuadVal::Rs256(x) => Box::new(x.iter()),
            QuadVal::Rs512(x) => Box::new(x.iter()),
        }
    }
    pub fn ref_into_iter(&self) -> Box<dyn Iterator<Item = u8> + '_> {
        match self {
            QuadVal::Qv(x) => Box::new(<&QVector as IntoIterator>::into_iter(x)),
            QuadVal::Rs256(x) => Box::new(<&RSQVector256 as IntoIterator>::into_iter(x)),
            QuadVal::Rs512(x) => Box::new(<&RSQVector512 as IntoIterator>::into_iter(x)),
        }
    }
    pub fn into_iter(self) -> Box<dyn Iterator<Item = u8>> {
        match self {
            QuadVal::Qv(x) => Box::new(x.into_iter()),
            QuadVal::Rs256(x) => Box::new(x.into_iter()),
            QuadVal::Rs512(x) => Box::new(x.into_iter()),
        }
    }
    /// `let mut d = donor.clone(); d.clone_from(self); d`
    pub fn clone_from_into(&self, donor: &QuadVal) -> Option<QuadVal> {
        match (self, donor) {
            (QuadVal::Qv(x), QuadVal::Qv(d)) => { let mut d = d.clone(); d.clone_from(x); Some(QuadVal::Qv(d)) }
            (QuadVal::Rs256(x), QuadVal::Rs256(d)) => { let mut d = d.clone(); d.clone_from(x); Some(QuadVal::Rs256(d)) }
            (QuadVal::Rs512(x), QuadVal::Rs512(d)) => { let mut d = d.clone(); d.clone_from(x); Some(QuadVal::Rs512(d)) }
            _ => None,
        }
    }
    pub fn check_iter_adapters(&self, m: &QuadModel, seed: u64, ctx: &mut Ctx) -> CheckResult {
        use crate::iteradapt::check_adapters as ca;
        let who = self.kind().name();
        let small = m.n() <= 20_000;
        match self {
            QuadVal::Qv(x) => {
                ca(|| x.iter(), &m.q, seed, &format!("{who} iter()"), ctx)?;
                ca(|| <&QVector as IntoIterator>::into_iter(x), &m.q, seed ^ 1, &format!("{who} (&v).into_iter()"), ctx)?;
                if small {
                    ca(|| x.clone().into_iter(), &m.q, seed ^ 2, &format!("{who} into_iter()"), ctx)?;
                }
            }
            QuadVal::Rs256(x) => {
                ca(|| x.iter(), &m.q, seed, &format!("{who} iter()"), ctx)?;
                ca(|| <&RSQVector256 as IntoIterator>::into_iter(x), &m.q, seed ^ 1, &format!("{who} (&v).into_iter()"), ctx)?;
                if small {
                    ca(|| x.clone().into_iter(), &m.q, seed ^ 2, &format!("{who} into_iter()"), ctx)?;
                }
            }
            QuadVal::Rs512(x) => {
                ca(|| x.iter(), &m.q, seed, &format!("{who} iter()"), ctx)?;
                ca(|| <&RSQVector512 as IntoIterator>::into_iter(x), &m.q, seed ^ 1, &format!("{who} (&v).into_iter()"), ctx)?;
                if small {
                    ca(|| x.clone().into_iter(), &m.q, seed ^ 2, &format!("{who} into_iter()"), ctx)?;
                }
            }
        }
        Ok(())
    }
    pub fn ser(&self) -> Result<Vec<u8>, String> {
        let r = match self {
            QuadVal::Qv(x) => bincode::serialize(x),
            QuadVal::Rs256(x) => bincode::serialize(x),
            QuadVal::Rs512(x) => bincode::serialize(x),
        };
        r.map_err(|e| e.to_string())
    }
    pub fn de_same(&self, b: &[u8]) -> Result<QuadVal, String> {
        let e = |e: bincode::Error| e.to_string();
        Ok(match self {
            QuadVal::Qv(_) => QuadVal::Qv(bincode::deserialize(b).map_err(e)?),
            QuadVal::Rs256(_) => QuadVal::Rs256(bincode::deserialize(b).map_err(e)?),
            QuadVal::Rs512(_) => QuadVal::Rs512(bincode::deserialize(b).map_err(e)?),
        })
    }
    pub fn space_usage_byte(&self) -> usize {
        match self {
            QuadVal::Qv(x) => x.space_usage_byte(),
            QuadVal::Rs256(x) => x.space_usage_byte(),
            QuadVal::Rs512(x) => x.space_usage_byte(),
        }
    }
    pub fn space_scaled(&self) -> (f64, f64, f64) {
        match self {
            QuadVal::Qv(x) => (x.space_usage_KiB(), x.space_usage_MiB(), x.space_usage_GiB()),
            QuadVal::Rs256(x) => (x.space_usage_KiB(), x.space_usage_MiB(), x.space_usage_GiB()),
            QuadVal::Rs512(x) => (x.space_usage_KiB(), x.space_usage_MiB(), x.space_usage_GiB()),
        }
    }
    pub fn size_of_val(&self) -> usize {
        match self {
            QuadVal::Qv(x) => std::mem::size_of_val(x),
            QuadVal::Rs256(x) => std::mem::size_of_val(x),
            QuadVal::Rs512(x) => std::mem::size_of_val(x),
        }
    }
}

// ---------------------------------------------------------------------------------------------
// content

#[derive(Clone, Debug, PartialEq, Eq, Hash, Serialize, Deserialize)]
pub enum QuadContent {
    Explicit(Vec<u8>),
    /// i.i.d. with weights (out of the sum) per symbol
    Weighted { n: usize, w: [u16; 4], seed: u64 },
    /// runs of geometric length (log2 mean)
    Runs { n: usize, lg: u8, seed: u64 },
    /// period repeated
    Periodic { n: usize, period: Vec<u8> },
    /// background symbol with `rare` occurrences of another symbol at pseudo-random places
    Rare { n: usize, background: u8, rare_symbol: u8, rare: u16, seed: u64 },
    /// symbol `s` only occurs after position `from`; before that the other three alternate
    After { n: usize, s: u8, from: usize, seed: u64 },
    /// weighted i.i.d. symbols rearranged so that the sampled occurrences (number 8192*k + {-1,0,1})
    /// of symbol `p & 3` land on or next to block / superblock borders (see `align_occurrences`)
    Aligned { n: usize, w: [u16; 4], p: u16, seed: u64 },
    /// `off` background symbols, then for g = gmin..=gmax a region of g * unit symbols that starts
    /// with exactly 8192 occurrences of `s` (interleaved with `bg` every `stride`-th position) and
    /// is background otherwise: consecutive select samples of `s` (one per 8192 occurrences) lie
    /// exactly g superblocks of `unit` symbols apart, for every g of the range (the span handed to
    /// the select jump search takes every value once)
    SampleGaps { s: u8, bg: u8, unit: u32, gmin: u16, gmax: u16, off: u32, stride: u8 },
}

impl QuadContent {
    pub fn expand(&self) -> Vec<u8> {
        match self {
            QuadContent::Explicit(v) => v.iter().map(|x| x & 3).collect(),
            QuadContent::Weighted { n, w, seed } => {
                let mut r = Rng::new(*seed);
                let tot: u64 = w.iter().map(|&x| x as u64).sum::<u64>().max(1);
                (0..*n)
                    .map(|_| {
                        let mut x = r.below(tot);
                        for s in 0..4u8 {
                            if x < w[s as usize] as u64 {
                                return s;
                            }
                            x -= w[s as usize] as u64;
                        }
                        0
                    })
                    .collect()
            }
            QuadContent::Aligned { n, w, p, seed } => {
                let v = QuadContent::Weighted { n: *n, w: *w, seed: *seed }.expand();
                let s = (*p & 3) as u8;
                let (cls, oth): (Vec<u8>, Vec<u8>) = v.iter().partition(|&&x| x == s);
                if cls.is_empty() {
                    return v;
                }
                let mut r = Rng::new(*seed ^ 0xa11c);
                crate::seqgen::align_occurrences(cls, oth, &mut r)
            }
            QuadContent::SampleGaps { s, bg, unit, gmin, gmax, off, stride } => {
                let (s, bg) = (s & 3, bg & 3);
                let stride = (*stride).max(1) as usize;
                let unit = (*unit as usize).max(1);
                let mut v = vec![bg; *off as usize];
                for g in *gmin..=*gmax {
                    let start = v.len();
                    let region = (g as usize * unit).max(8192 * stride);
                    v.resize(start + region, bg);
                    for j in 0..8192 {
                        v[start + j * stride] = s;
                    }
                }
                v
            }
            QuadContent::Runs { n, lg, seed } => {
                let mut r = Rng::new(*seed);
                let mean = 1usize << (*lg).min(14);
                let mut v = Vec::with_capacity(*n);
                while v.len() < *n {
                    let s = r.below(4) as u8;
                    let len = 1 + r.below_usize(2 * mean);
                    for _ in 0..len {
                        if v.len() < *n {
                            v.push(s);
                        }
                    }
                }
                v
            }
            QuadContent::Periodic { n, period } => {
                if period.is_empty() {
                    return vec![0; *n];
                }
                (0..*n).map(|i| period[i % period.len()] & 3).collect()
            }
            QuadContent::Rare { n, background, rare_symbol, rare, seed } => {
                let mut r = Rng::new(*seed);
                let mut v = vec![background & 3; *n];
                if *n > 0 {
                    for _ in 0..*rare {
                        let p = r.below_usize(*n);
                        v[p] = rare_symbol & 3;
                    }
                }
                v
            }
            QuadContent::After { n, s, from, seed } => {
                let mut r = Rng::new(*seed);
                let s = s & 3;
                (0..*n)
                    .map(|i| {
                        if i >= *from && r.below(3) == 0 {
                            s
                        } else {
                            let mut o = (i % 3) as u8;
                            if o >= s {
                                o += 1;
                            }
                            o & 3
                        }
                    })
                    .collect()
            }
        }
    }
}

pub fn explicit_quads(max_n: usize) -> BoxedStrategy<QuadContent> {
    let len = prop_oneof![
        1 => Just(0usize),
        1 => Just(1usize),
        2 => 2usize..=130,
        3 => 131usize..=600,
        3 => 601usize..=max_n.max(602),
        3 => boundary_len(0, max_n),
    ]
    .prop_map(move |n| n.min(max_n));
    (len, 0u8..5)
        .prop_flat_map(|(n, mode)| (proptest::collection::vec(any::<u8>(), n..=n), Just(mode)))
        .prop_map(|(raw, mode)| {
            QuadContent::Explicit(
                raw.iter()
                    .map(|&x| match mode {
                        0 => x & 3,
                        1 => if x < 250 { 0 } else { x & 3 },
                        2 => 3,
                        3 => (x & 1) * 2,
                        _ => if x < 128 { 1 } else { 2 },
                    })
                    .collect(),
            )
        })
        .boxed()
}

pub fn recipe_quads(lo: usize, hi: usize) -> BoxedStrategy<QuadContent> {
    let n = prop_oneof![2 => lo..=hi, 2 => boundary_len(lo, hi)];
    prop_oneof![
        3 => (n.clone(), [0u16..1000, 0u16..1000, 0u16..1000, 0u16..1000], any::<u64>())
            .prop_map(|(n, w, seed)| QuadContent::Weighted { n, w, seed }),
        2 => (n.clone(), 0u8..=14, any::<u64>()).prop_map(|(n, lg, seed)| QuadContent::Runs { n, lg, seed }),
        2 => (n.clone(), proptest::collection::vec(0u8..4, 1..9)).prop_map(|(n, period)| QuadContent::Periodic { n, period }),
        2 => (n.clone(), 0u8..4, 0u8..4, 0u16..40, any::<u64>())
            .prop_map(|(n, background, rare_symbol, rare, seed)| QuadContent::Rare { n, background, rare_symbol, rare, seed }),
        2 => (n.clone(), 0u8..4, 0usize..20, any::<u64>())
            .prop_map(|(n, s, k, seed)| QuadContent::After { n, s, from: (k * 4096).min(n), seed }),
        2 => (n, [0u16..1000, 0u16..1000, 0u16..1000, 0u16..1000], 0u16..4, any::<u64>())
            .prop_map(|(n, w, p, seed)| QuadContent::Aligned { n, w, p, seed }),
    ]
    .boxed()
}

pub fn simplify_quads(c: &QuadContent) -> Vec<QuadContent> {
    match c {
        QuadContent::Explicit(v) => crate::runner::chunk_removals(v, 12).into_iter().map(QuadContent::Explicit).collect(),
        other => vec![QuadContent::Explicit(other.expand())],
    }
}

// ---------------------------------------------------------------------------------------------
// check

#[derive(Clone, Copy, Debug)]
pub struct QuadOpts {
    pub unchecked: bool,
    pub budget: usize,
    pub iterators: bool,
    /// query select at every multiple of the sampling period (+-1), not only at the first 30
    pub all_samples: bool,
}

pub fn check_quads(v: &QuadVal, m: &QuadModel, plan_seed: u64, o: QuadOpts, ctx: &mut Ctx) -> CheckResult {
    let who = v.kind().name();
    let n = m.n();
    let mut rng = Rng::new(plan_seed);
    note("len", 0, 0, 0);
    let l = v.len();
    ctx.q();
    ctx.absorb(&l);
    ensure!(l == n, "{who}: len = {l}, expected {n}");
    ensure!(v.is_empty() == (n == 0), "{who}: is_empty = {}, n = {n}", v.is_empty());

    let mut pos: Vec<usize> = Vec::new();
    if n <= 700 {
        pos.extend(0..=n + 1);
    } else {
        pos.extend([0, 1, n - 1, n, n + 1]);
        for p in [128usize, 256, 512, 2048, 4096] {
            let last = n / p * p;
            for b in [p, 2 * p, last] {
                if b > 0 && b <= n + 1 {
                    pos.extend([b - 1, b, b + 1]);
                }
            }
            for _ in 0..4 {
                let b = rng.below_usize(n / p + 1) * p;
                if b > 0 {
                    pos.extend([b - 1, b, b + 1]);
                }
            }
        }
        for _ in 0..o.budget * 3 {
            pos.push(rng.below_usize(n + 1));
        }
    }
    pos.extend([n + 2, 1usize << 32, 1usize << 43, usize::MAX - 1, usize::MAX]);
    pos.extend(crate::util::wrap_positions(n));
    pos.sort_unstable();
    pos.dedup();

    let has_rs = v.kind() != QuadKind::Qv;
    for &i in &pos {
        note("get", i as u128, 0, 0);
        let g = v.get(i);
        let e = m.q.get(i).copied();
        ctx.q();
        ctx.absorb(&g);
        ensure!(g == e, "{who}: get({i}) = {:?}, expected {:?} (n = {n})", g, e);
        if o.unchecked && i < n {
            note("get_unchecked", i as u128, 0, 0);
            let u = unsafe { v.get_unchecked(i) };
            ctx.q();
            ensure!(Some(u) == g, "{who}: get_unchecked({i}) = {u}, get = {:?}", g);
        }
        if has_rs {
            for s in 0..4u8 {
                note("rank", s as u128, i as u128, 0);
                let r = v.rank(s, i).unwrap();
                let e = if i <= n { Some(m.rank(s, i)) } else { None };
                ctx.q();
                ctx.absorb(&r);
                ensure!(r == e, "{who}: rank({s}, {i}) = {:?}, expected {:?} (n = {n})", r, e);
                if o.unchecked && i <= n {
                    note("rank_unchecked", s as u128, i as u128, 0);
                    let u = unsafe { v.rank_unchecked(s, i) }.unwrap();
                    ctx.q();
                    ensure!(Some(u) == e, "{who}: rank_unchecked({s}, {i}) = {u}, rank = {:?}", r);
                }
            }
        }
    }
    if has_rs {
        // invalid symbols: all of 4..=255 at a few positions
        let some_pos = [0usize, n / 2, n, n + 1, usize::MAX];
        for s in 4..=255u8 {
            for &i in &some_pos {
                note("rank", s as u128, i as u128, 0);
                let r = v.rank(s, i).unwrap();
                ctx.q();
                ensure!(r.is_none(), "{who}: rank({s}, {i}) = {:?}, expected None for a symbol above 3", r);
            }
            for k in [0usize, 1, n, usize::MAX] {
                note("select", s as u128, k as u128, 0);
                let r = v.select(s, k).unwrap();
                ctx.q();
                ensure!(r.is_none(), "{who}: select({s}, {k}) = {:?}, expected None for a symbol above 3", r);
            }
            note("occs", s as u128, 0, 0);
            let oc = v.occs(s).unwrap();
            let os = v.occs_smaller(s).unwrap();
            ctx.q();
            ensure!(oc.is_none() && os.is_none(), "{who}: occs({s}) = {:?}, occs_smaller({s}) = {:?}, expected None", oc, os);
        }
        for s in 0..4u8 {
            note("occs", s as u128, 0, 0);
            let oc = v.occs(s).unwrap();
            let os = v.occs_smaller(s).unwrap();
            ctx.q();
            ctx.absorb(&(oc, os));
            ensure!(oc == Some(m.occs(s)), "{who}: occs({s}) = {:?}, expected {}", oc, m.occs(s));
            ensure!(os == Some(m.occs_smaller(s)), "{who}: occs_smaller({s}) = {:?}, expected {}", os, m.occs_smaller(s));
            if o.unchecked {
                note("occs_unchecked", s as u128, 0, 0);
                let (a, b) = unsafe { v.occs_unchecked(s) }.unwrap();
                ctx.q();
                ensure!(Some(a) == oc && Some(b) == os, "{who}: occs_unchecked({s}) = {a}, occs_smaller_unchecked = {b}, checked: {:?} {:?}", oc, os);
            }
            let cnt = m.occs(s);
            let mut ks: Vec<usize> = Vec::new();
            if cnt <= 600 {
                ks.extend(0..cnt);
            } else {
                ks.extend([0, 1, cnt - 1]);
                let mut k = 8192;
                let mut c = 0;
                while k < cnt && (c < 30 || o.all_samples) {
                    ks.extend([k - 1, k, k + 1]);
                    k += if o.all_samples { 8192 } else { 8192 * (cnt / 8192 / 20).max(1) };
                    c += 1;
                }
                for _ in 0..4 {
                    let st = rng.below_usize(cnt);
                    ks.extend(st..(st + 40).min(cnt));
                }
                for _ in 0..o.budget * 2 {
                    ks.push(rng.below_usize(cnt));
                }
            }
            ks.retain(|&k| k < cnt);
            ks.extend([cnt, cnt + 1, usize::MAX - 1, usize::MAX]);
            ks.sort_unstable();
            ks.dedup();
            for &k in &ks {
                note("select", s as u128, k as u128, 0);
                let r = v.select(s, k).unwrap();
                let e = m.pos[s as usize].get(k).copied();
                ctx.q();
                ctx.absorb(&r);
                ensure!(r == e, "{who}: select({s}, {k}) = {:?}, expected {:?} (n = {n}, occs = {cnt})", r, e);
                if o.unchecked && e.is_some() {
                    note("select_unchecked", s as u128, k as u128, 0);
                    let u = unsafe { v.select_unchecked(s, k) }.unwrap();
                    ctx.q();
                    ensure!(Some(u) == e, "{who}: select_unchecked({s}, {k}) = {u}, select = {:?}", r);
                }
            }
        }
    }
    if o.iterators {
        for (name, it) in [("iter()", v.iter()), ("(&v).into_iter()", v.ref_into_iter()), ("into_iter()", v.clone().into_iter())] {
            note("iterate", 0, 0, 0);
            let mut it = it;
            for i in 0..n {
                let x = it.next();
                ensure!(x == Some(m.q[i]), "{who}: {name} item {i} = {:?}, expected {}", x, m.q[i]);
            }
            ctx.queries += n as u64;
            for _ in 0..10 {
                ensure!(it.next().is_none(), "{who}: {name} yields an item after the end");
            }
        }
        if n <= 6_000 || (n <= 60_000 && plan_seed % 8 == 0) {
            v.check_iter_adapters(m, plan_seed ^ 5, ctx)?;
        }
    }
    let _ = unreachable_fail;
    Ok(())
}

#[allow(dead_code)]
fn unreachable_fail() -> CheckResult {
    fail!("unreachable")
}
