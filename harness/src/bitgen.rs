//! Generators for bit vectors: explicit small ones, density/run recipes, and the DArray group grammar.
use crate::seqgen::boundary_len;
use crate::util::Rng;
use proptest::prelude::*;
use serde::{Deserialize, Serialize};

/// Spacing law of one DArray group (a group = up to 1024 consecutive set bits).
#[derive(Clone, Copy, Debug, PartialEq, Eq, Hash, Serialize, Deserialize)]
pub enum Law {
    /// gaps 1..=max (max <= 63): the group spans far fewer than 65536 bits
    Dense(u8),
    /// gaps min..=min+spread, min >= 64
    Sparse(u16, u16),
    /// first-to-last span of the group exactly this many bits (65535, 65536, 65537 ...)
    Span(u32),
    /// a tight cluster followed by one long gap
    ClusterGap(u32),
    /// first-to-last span exactly `span`; the last 32 ones of the group are packed at the very end
    /// of the span with one hole `hole` positions before the last one (a near-run whose sub-block
    /// offset is as large as a 16-bit offset can get)
    SpanTail(u32, u8),
}

#[derive(Clone, Copy, Debug, PartialEq, Eq, Hash, Serialize, Deserialize)]
pub struct Group {
    pub count: u16,
    pub law: Law,
}

#[derive(Clone, Debug, PartialEq, Eq, Hash, Serialize, Deserialize)]
pub enum BitContent {
    Explicit(Vec<bool>),
    /// each bit set with probability num / 65536
    Density { n: usize, num: u32, seed: u64 },
    /// alternating runs, geometric lengths with the given means (log2) for zeros and ones
    Runs { n: usize, zero_lg: u8, one_lg: u8, seed: u64 },
    /// blocks of `block` bits, each entirely ones / entirely zeros / random (pattern from seed)
    Blocks { n: usize, block: usize, seed: u64 },
    /// DArray group grammar; `complement` flips every bit (drives select0); `tail` zeros appended
    Groups { groups: Vec<Group>, complement: bool, lead: u16, tail: u16, seed: u64 },
    /// the count of ones crosses k * period by delta (k*period - 1, +0, +1), zeros likewise if `zeros`
    CountCross { period: usize, k: u8, delta: i8, gap_lg: u8, zeros: bool, seed: u64 },
    /// alternating runs of ones and zeros of fixed lengths (block-structured data); `jitter` adds
    /// 0..=jitter bits to each run
    PeriodicRuns { one_len: u32, zero_len: u32, periods: u16, jitter: u8, seed: u64 },
    /// `before` set bits with small gaps, then `gap` clear bits, then `after` set bits; `before` sits
    /// at a multiple of a hint period +-1 (select hints recorded one occurrence early / late only
    /// show when whole blocks without a set bit follow); complemented if `zeros`
    GapAfterCount { period: usize, k: u8, delta: i8, gap: u32, after: u16, zeros: bool, seed: u64 },
}

impl BitContent {
    pub fn expand(&self) -> Vec<bool> {
        match self {
            BitContent::Explicit(v) => v.clone(),
            BitContent::Density { n, num, seed } => {
                let mut r = Rng::new(*seed);
                (0..*n).map(|_| (r.next_u64() & 0xFFFF) < *num as u64).collect()
            }
            BitContent::Runs { n, zero_lg, one_lg, seed } => {
                let mut r = Rng::new(*seed);
                let mut v = Vec::with_capacity(*n);
                let mut bit = seed & 1 == 1;
                while v.len() < *n {
                    let mean = 1usize << (if bit { *one_lg } else { *zero_lg }).min(17);
                    let len = 1 + r.below_usize(2 * mean);
                    for _ in 0..len {
                        if v.len() < *n {
                            v.push(bit);
                        }
                    }
                    bit = !bit;
                }
                v
            }
            BitContent::Blocks { n, block, seed } => {
                let mut r = Rng::new(*seed);
                let mut v = Vec::with_capacity(*n);
                while v.len() < *n {
                    let mode = r.below(4);
                    for _ in 0..*block {
                        if v.len() < *n {
                            v.push(match mode {
                                0 => true,
                                1 => false,
                                2 => true,
                                _ => r.next_u64() & 1 == 1,
                            });
                        }
                    }
                }
                v
            }
            BitContent::Groups { groups, complement, lead, tail, seed } => {
                let mut r = Rng::new(*seed);
                let mut pos: Vec<usize> = Vec::new();
                let mut cur = *lead as usize;
                for g in groups {
                    let c = g.count.clamp(1, 1024) as usize;
                    match g.law {
                        Law::Dense(max) => {
                            let max = max.clamp(1, 63) as usize;
                            for _ in 0..c {
                                pos.push(cur);
                                cur += 1 + r.below_usize(max);
                            }
                        }
                        Law::Sparse(min, spread) => {
                            let min = (min as usize).max(64);
                            for _ in 0..c {
                                pos.push(cur);
                                cur += min + r.below_usize(spread as usize + 1);
                            }
                        }
                        Law::Span(span) => {
                            // c ones, the first at cur and the last at cur + span, others random inside
                            let span = (span as usize).max(c);
                            let mut inner: Vec<usize> = Vec::new();
                            if c >= 2 {
                                // choose c-2 distinct offsets in 1..span
                                let mut set = std::collections::BTreeSet::new();
                                let want = (c - 2).min(span - 1);
                                while set.len() < want {
                                    set.insert(1 + r.below_usize(span - 1));
                                }
                                inner.extend(set);
                            }
                            pos.push(cur);
                            for o in inner {
                                pos.push(cur + o);
                            }
                            if c >= 2 {
                                pos.push(cur + span);
                            }
                            cur += span + 1 + r.below_usize(3);
                        }
                        Law::SpanTail(span, hole) => {
                            let span = (span as usize).max(c + 40);
                            // c ones: the first c-32 spread over the first part, then 32 of the last 33
                            // positions of the span (one hole)
                            let tail = 32.min(c);
                            let head = c - tail;
                            let room = span - 33;
                            let mut set = std::collections::BTreeSet::new();
                            if head > 0 {
                                set.insert(0usize);
                            }
                            while set.len() < head.min(room) {
                                set.insert(r.below_usize(room));
                            }
                            for o in set {
                                pos.push(cur + o);
                            }
                            let hole_at = span - 1 - (hole as usize % 32).max(1).min(31);
                            for o in span - 32..=span {
                                if o != hole_at && pos.len() < usize::MAX {
                                    pos.push(cur + o);
                                }
                            }
                            cur += span + 1 + r.below_usize(3);
                        }
                        Law::ClusterGap(gap) => {
                            for _ in 0..c {
                                pos.push(cur);
                                cur += 1;
                            }
                            cur += gap as usize;
                        }
                    }
                }
                let n = pos.last().map_or(0, |&p| p + 1) + *tail as usize;
                let mut v = vec![false; n];
                for p in pos {
                    v[p] = true;
                }
                if *complement {
                    for b in v.iter_mut() {
                        *b = !*b;
                    }
                }
                v
            }
            BitContent::PeriodicRuns { one_len, zero_len, periods, jitter, seed } => {
                let mut r = Rng::new(*seed);
                let mut v = Vec::new();
                let mut bit = seed & 1 == 1;
                for _ in 0..(2 * *periods as usize).max(1) {
                    let base = if bit { *one_len } else { *zero_len } as usize;
                    let len = base + r.below_usize(*jitter as usize + 1);
                    v.extend(std::iter::repeat(bit).take(len));
                    bit = !bit;
                    if v.len() > 4_000_000 {
                        break;
                    }
                }
                v
            }
            BitContent::GapAfterCount { period, k, delta, gap, after, zeros, seed } => {
                let mut r = Rng::new(*seed);
                let before = ((*period * (*k as usize).max(1)) as i64 + *delta as i64).max(1) as usize;
                let mut v = Vec::new();
                for _ in 0..before {
                    for _ in 0..r.below_usize(3) {
                        v.push(false);
                    }
                    v.push(true);
                }
                v.extend(std::iter::repeat(false).take(*gap as usize));
                for _ in 0..*after {
                    v.push(true);
                    for _ in 0..r.below_usize(5) {
                        v.push(false);
                    }
                }
                if *zeros {
                    for b in v.iter_mut() {
                        *b = !*b;
                    }
                }
                v
            }
            BitContent::CountCross { period, k, delta, gap_lg, zeros, seed } => {
                let mut r = Rng::new(*seed);
                let target = ((*period * (*k as usize).max(1)) as i64 + *delta as i64).max(0) as usize;
                let mean = 1usize << (*gap_lg).min(6);
                let mut v = Vec::new();
                for _ in 0..target {
                    let gap = r.below_usize(2 * mean);
                    for _ in 0..gap {
                        v.push(false);
                    }
                    v.push(true);
                }
                let tail = r.below_usize(3 * mean + 1);
                for _ in 0..tail {
                    v.push(false);
                }
                if *zeros {
                    for b in v.iter_mut() {
                        *b = !*b;
                    }
                }
                v
            }
        }
    }
}

fn law() -> BoxedStrategy<Law> {
    prop_oneof![
        5 => (1u8..=63).prop_map(Law::Dense),
        4 => (64u16..=600, 0u16..=3500).prop_map(|(a, b)| Law::Sparse(a, b)),
        3 => prop_oneof![Just(65535u32), Just(65536), Just(65537), Just(65534), 60000u32..70000].prop_map(Law::Span),
        1 => (0u32..200_000).prop_map(Law::ClusterGap),
        2 => (prop_oneof![Just(65535u32), Just(65534), Just(65536), Just(65503)], any::<u8>()).prop_map(|(s, h)| Law::SpanTail(s, h)),
    ]
    .boxed()
}

pub fn groups_content(max_groups: usize) -> BoxedStrategy<BitContent> {
    let group = (
        prop_oneof![4 => Just(1024u16), 1 => 1u16..=1024, 1 => Just(1023u16), 1 => 1u16..=64],
        law(),
    )
        .prop_map(|(count, law)| Group { count, law });
    (
        proptest::collection::vec(group, 1..=max_groups),
        (prop_oneof![2 => 1u16..=1024, 2 => (0u16..32).prop_map(|m| 32 * m + 1), 1 => (1u16..32).prop_map(|m| 32 * m)],
         prop_oneof![3 => law(), 2 => prop_oneof![Just(65535u32), Just(65536), Just(65534), Just(65537)].prop_map(Law::Span)])
            .prop_map(|(count, law)| Group { count, law }),
        any::<bool>(),
        prop_oneof![Just(0u16), 0u16..700],
        prop_oneof![Just(0u16), 0u16..700],
        any::<u64>(),
        any::<bool>(),
    )
        .prop_map(|(mut groups, last, complement, lead, tail, seed, partial_last)| {
            // every group but the last is complete (1024 ones) so that the generated laws line up
            // with DArray's own 1024-one blocks; the last one may be partial
            for g in groups.iter_mut() {
                g.count = 1024;
            }
            if partial_last {
                groups.push(last);
            }
            BitContent::Groups { groups, complement, lead, tail, seed }
        })
        .boxed()
}

pub fn explicit_bits(max_n: usize) -> BoxedStrategy<BitContent> {
    let len = prop_oneof![
        1 => Just(0usize),
        1 => Just(1usize),
        2 => 2usize..=70,
        3 => 71usize..=600,
        3 => 601usize..=max_n.max(602),
        3 => boundary_len(0, max_n),
    ]
    .prop_map(move |n| n.min(max_n));
    (len, 0u8..6)
        .prop_flat_map(|(n, mode)| (proptest::collection::vec(any::<u8>(), n..=n), Just(mode)))
        .prop_map(|(raw, mode)| {
            BitContent::Explicit(
                raw.iter()
                    .map(|&x| match mode {
                        0 => x & 1 == 1,
                        1 => x < 8,   // sparse
                        2 => x >= 8,  // dense
                        3 => true,
                        4 => false,
                        _ => x < 128,
                    })
                    .collect(),
            )
        })
        .boxed()
}

pub fn recipe_bits(lo: usize, hi: usize) -> BoxedStrategy<BitContent> {
    let n = prop_oneof![2 => lo..=hi, 2 => boundary_len(lo, hi)];
    let density = prop_oneof![
        Just(0u32), Just(16), Just(655), Just(7864), Just(32768), Just(57672), Just(64880), Just(65536),
        0u32..=65536
    ];
    prop_oneof![
        4 => (n.clone(), density, any::<u64>()).prop_map(|(n, num, seed)| BitContent::Density { n, num, seed }),
        3 => (n.clone(), 0u8..=17, 0u8..=17, any::<u64>())
            .prop_map(|(n, zero_lg, one_lg, seed)| BitContent::Runs { n, zero_lg, one_lg, seed }),
        2 => (n, prop_oneof![Just(64usize), Just(512), Just(4096), Just(32768)], any::<u64>())
            .prop_map(|(n, block, seed)| BitContent::Blocks { n, block, seed }),
        2 => (prop_oneof![Just(9000u32), Just(8192), Just(8193), Just(4096), Just(512), Just(33), 1u32..20_000], prop_oneof![Just(0u32), Just(1), 1u32..20_000], 1u16..=6, prop_oneof![Just(0u8), Just(1), any::<u8>()], any::<u64>())
            .prop_map(move |(a, d, periods, jitter, seed)| {
                // equal run lengths (d = 0) are the interesting symmetric case
                let (one_len, zero_len) = if d == 0 { (a, a) } else { (a, d) };
                let periods = periods.min((hi / (one_len as usize + zero_len as usize + 2)).max(1) as u16);
                BitContent::PeriodicRuns { one_len, zero_len, periods, jitter, seed }
            }),
        2 => (prop_oneof![Just(1024usize), Just(8192)], 1u8..=3, -2i8..=1, prop_oneof![Just(4096u32), Just(8192), Just(12288), 512u32..40_000], 1u16..2000, any::<bool>(), any::<u64>())
            .prop_map(|(period, k, delta, gap, after, zeros, seed)| BitContent::GapAfterCount { period, k, delta, gap, after, zeros, seed }),
        3 => (prop_oneof![Just(1024usize), Just(8192)], 1u8..=12, -1i8..=1, 0u8..=6, any::<bool>(), any::<u64>())
            .prop_map(move |(period, k, delta, gap_lg, zeros, seed)| {
                // keep the vector within hi bits
                let mut k = k;
                while k > 1 && period * k as usize * (1usize << gap_lg) > hi {
                    k -= 1;
                }
                BitContent::CountCross { period, k, delta, gap_lg: if period * (1usize << gap_lg) > hi { 0 } else { gap_lg }, zeros, seed }
            }),
    ]
    .boxed()
}

/// delta-debugging candidates over the expanded bits
pub fn simplify_bits(c: &BitContent) -> Vec<BitContent> {
    match c {
        BitContent::Explicit(v) => crate::runner::chunk_removals(v, 12)
            .into_iter()
            .map(BitContent::Explicit)
            .collect(),
        other => {
            let v = other.expand();
            if v.len() <= 3_000_000 {
                vec![BitContent::Explicit(v)]
            } else {
                vec![]
            }
        }
    }
}
