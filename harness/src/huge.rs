//! Thorough-tier probes on inputs far beyond what the generators produce (2^27 symbols, 2^32
//! bits), with closed-form oracles instead of an expanded model. They exist because counters and
//! indices narrower than the data (16- or 32-bit superblock ids, positions, popcounts) only
//! misbehave at these sizes. Each needs up to ~1.2 GB of memory and a few seconds.
use crate::runner::{CheckResult, Ctx};
use crate::util::note;
use crate::{ensure, fail};
use qwt::{
    AccessBin, AccessQuad, AccessUnsigned, BitVector, BitVectorMut, DArray, QVector, RSNarrow, RSQVector256, RSQVector512,
    RSWide, RankBin, RankQuad, RankUnsigned, SelectBin, SelectQuad, SelectUnsigned, WTSupport, QWT256,
};

#[derive(Clone, Copy)]
pub struct Probe {
    pub name: &'static str,
    pub run: fn(&mut Ctx) -> CheckResult,
    /// small enough (< 350 MB, < 3 s) to run in the quick tier as well
    pub quick: bool,
}

fn sample_positions(n: usize) -> Vec<usize> {
    let mut v = vec![0, 1, 2047, 2048, 2049, n / 2, n - 2, n - 1];
    // around every power of two and around the 16-bit superblock-id wrap for both block sizes
    for k in 10..=40 {
        let p = 1usize << k;
        for d in [-1i64, 0, 1, 4097] {
            let x = p as i64 + d;
            if x >= 0 && (x as usize) < n {
                v.push(x as usize);
            }
        }
    }
    for base in [65536usize * 2048, 65536 * 4096, 65535 * 2048, 65537 * 2048] {
        for d in [0usize, 1, 2047, 2048, 4095, 4096, 8191, 8192, 12345] {
            for sgn in [1i64, -1] {
                let x = base as i64 + sgn * d as i64;
                if x >= 0 && (x as usize) < n {
                    v.push(x as usize);
                }
            }
        }
    }
    let mut r = crate::util::Rng::new(n as u64);
    for _ in 0..3000 {
        v.push(r.below_usize(n));
    }
    v.sort_unstable();
    v.dedup();
    v
}

/// periodic 0,1,2,3 sequence: get(i) = i % 4, rank(s, i) = i/4 + (i%4 > s), select(s, k) = 4k + s
fn periodic_quad<R>(n: usize, who: &str, ctx: &mut Ctx) -> CheckResult
where
    R: From<QVector> + AccessQuad + RankQuad + SelectQuad + WTSupport,
{
    note("build", n as u128, 0, 0);
    let qv: QVector = (0..n).map(|i| (i & 3) as u8).collect();
    let rs = R::from(qv);
    for s in 0..4u8 {
        let occ = n / 4 + ((n % 4) > s as usize) as usize;
        ensure!(rs.occs(s) == Some(occ), "{who}: occs({s}) = {:?}, expected {occ} (n = {n})", rs.occs(s));
    }
    for &i in &sample_positions(n) {
        ctx.q();
        note("get", i as u128, 0, 0);
        ensure!(rs.get(i) == Some((i & 3) as u8), "{who}: get({i}) = {:?} (n = {n})", rs.get(i));
        for s in 0..4u8 {
            let e = i / 4 + ((i % 4) > s as usize) as usize;
            note("rank", s as u128, i as u128, 0);
            let g = rs.rank(s, i);
            ensure!(g == Some(e), "{who}: rank({s}, {i}) = {:?}, expected {e} (n = {n})", g);
            let k = i / 4;
            let pos = 4 * k + s as usize;
            note("select", s as u128, k as u128, 0);
            let g = rs.select(s, k);
            let e = if pos < n { Some(pos) } else { None };
            ensure!(g == e, "{who}: select({s}, {k}) = {:?}, expected {:?} (n = {n})", g, e);
        }
    }
    ensure!(rs.get(n).is_none() && rs.rank(0, n + 1).is_none(), "{who}: answers past the end");
    Ok(())
}

fn quad_256(ctx: &mut Ctx) -> CheckResult {
    periodic_quad::<RSQVector256>((1 << 27) + 70_001, "RSQVector256 (2^27 + 70001 symbols)", ctx)
}
fn quad_512(ctx: &mut Ctx) -> CheckResult {
    periodic_quad::<RSQVector512>((1 << 28) + 70_001, "RSQVector512 (2^28 + 70001 symbols)", ctx)
}

/// QWT256<u8> over 2^27 + 32768 zeros followed by a one and a three
fn qwt_long(ctx: &mut Ctx) -> CheckResult {
    let z = (1usize << 27) + 32_768;
    let mut v = vec![0u8; z];
    v.push(1);
    v.push(3);
    let n = v.len();
    note("build", n as u128, 0, 0);
    let t = QWT256::<u8>::from(v);
    let who = "QWT256<u8> (2^27 + 32770 symbols)";
    ensure!(t.len() == n, "{who}: len = {}", t.len());
    for &i in &sample_positions(z) {
        ctx.q();
        note("get/rank/select", i as u128, 0, 0);
        ensure!(t.get(i) == Some(0), "{who}: get({i}) = {:?}", t.get(i));
        ensure!(t.rank(0, i) == Some(i), "{who}: rank(0, {i}) = {:?}", t.rank(0, i));
        ensure!(t.rank(1, i) == Some(0), "{who}: rank(1, {i}) = {:?}", t.rank(1, i));
        ensure!(t.select(0, i) == Some(i), "{who}: select(0, {i}) = {:?}, expected Some({i})", t.select(0, i));
    }
    ensure!(t.select(0, z - 1) == Some(z - 1), "{who}: select(0, {}) = {:?}", z - 1, t.select(0, z - 1));
    ensure!(t.select(0, z).is_none(), "{who}: select(0, {z}) = {:?}, expected None", t.select(0, z));
    ensure!(t.select(1, 0) == Some(z) && t.select(3, 0) == Some(z + 1) && t.select(2, 0).is_none(), "{who}: select of the trailing symbols: {:?} {:?} {:?}", t.select(1, 0), t.select(3, 0), t.select(2, 0));
    ensure!(t.rank(1, n) == Some(1) && t.rank(3, n) == Some(1) && t.rank(0, n) == Some(z), "{who}: ranks at the end");
    Ok(())
}

const ONES: [usize; 5] = [3, 70_000, (1usize << 32) - 1, (1usize << 32) + 5, (1usize << 32) + 20_600];

fn sparse_bits() -> BitVector {
    let n = (1usize << 32) + 20_603;
    let mut m = BitVectorMut::new();
    m.extend_with_zeros(n);
    for &p in &ONES {
        m.set(p, true);
    }
    m.into()
}

fn check_sparse<R: AccessBin + RankBin + SelectBin>(rs: &R, who: &str, ctx: &mut Ctx) -> CheckResult {
    let n = (1usize << 32) + 20_603;
    for (k, &p) in ONES.iter().enumerate() {
        ctx.q();
        note("select1", k as u128, 0, 0);
        ensure!(rs.select1(k) == Some(p), "{who}: select1({k}) = {:?}, expected Some({p})", rs.select1(k));
        ensure!(rs.rank1(p) == Some(k) && rs.rank1(p + 1) == Some(k + 1), "{who}: rank1 around {p}: {:?} {:?}", rs.rank1(p), rs.rank1(p + 1));
        ensure!(rs.get(p) == Some(true) && rs.get(p - 1) == Some(false), "{who}: get around {p}");
    }
    ensure!(rs.select1(5).is_none(), "{who}: select1(5) = {:?}", rs.select1(5));
    // zeros: position of the k-th zero = k + number of ones at or before it
    let zero_pos = |k: usize| {
        let mut p = k;
        for &o in &ONES {
            if o <= p {
                p += 1;
            }
        }
        p
    };
    let mut ks = vec![0usize, 1, 2, 3, 4, 69_998, 69_999, 70_000, 1 << 20, (1 << 31) + 7, (1usize << 32) - 4, (1usize << 32) - 3, (1usize << 32) - 2, 1usize << 32, (1usize << 32) + 1, (1usize << 32) + 20_000, n - 6, n - 5 - 1];
    let mut r = crate::util::Rng::new(77);
    for _ in 0..400 {
        ks.push(r.below_usize(n - 5));
    }
    for k in ks {
        ctx.q();
        note("select0", k as u128, 0, 0);
        let e = zero_pos(k);
        let g = rs.select0(k);
        ensure!(g == Some(e), "{who}: select0({k}) = {:?}, expected Some({e})", g);
        ensure!(rs.rank0(e) == Some(k), "{who}: rank0({e}) = {:?}, expected Some({k})", rs.rank0(e));
    }
    ensure!(rs.select0(n - 5).is_none(), "{who}: select0(number of zeros) = {:?}", rs.select0(n - 5));
    ensure!(rs.rank1(n) == Some(5) && rs.rank1(n + 1).is_none(), "{who}: rank1 at / past the end");
    Ok(())
}

fn narrow_sparse(ctx: &mut Ctx) -> CheckResult {
    note("build", 0, 0, 0);
    let rs = RSNarrow::new(sparse_bits());
    ensure!(rs.n_ones() == 5 && rs.n_zeros() == (1usize << 32) + 20_598, "RSNarrow (2^32 + 20603 bits): totals {} / {}", rs.n_ones(), rs.n_zeros());
    check_sparse(&rs, "RSNarrow (2^32 + 20603 bits, 5 ones)", ctx)
}
fn wide_sparse(ctx: &mut Ctx) -> CheckResult {
    note("build", 0, 0, 0);
    let rs = RSWide::new(sparse_bits());
    ensure!(rs.n_ones() == 5 && rs.n_zeros() == (1usize << 32) + 20_598, "RSWide (2^32 + 20603 bits): totals {} / {}", rs.n_ones(), rs.n_zeros());
    check_sparse(&rs, "RSWide (2^32 + 20603 bits, 5 ones)", ctx)
}

fn darray_beyond_u32(ctx: &mut Ctx) -> CheckResult {
    // a sparse group reaching beyond bit 2^32, built from a position list
    let pos: Vec<usize> = vec![3, 100, (1usize << 32) - 1, (1usize << 32) + 5, (1usize << 32) + 70_005];
    note("build", 0, 0, 0);
    let da: DArray<false> = pos.iter().copied().collect();
    let who = "DArray<false> (positions up to 2^32 + 70005)";
    ensure!(da.len() == pos[4] + 1 && da.count_ones() == 5, "{who}: len {} count_ones {}", da.len(), da.count_ones());
    for (k, &p) in pos.iter().enumerate() {
        ctx.q();
        note("select1", k as u128, 0, 0);
        ensure!(da.select1(k) == Some(p), "{who}: select1({k}) = {:?}, expected Some({p})", da.select1(k));
        ensure!(da.get(p) == Some(true), "{who}: get({p})");
    }
    ensure!(da.select1(5).is_none(), "{who}: select1(5)");
    let got: Vec<usize> = da.ones_with_pos((1usize << 32) - 5).collect();
    ensure!(got == pos[2..], "{who}: ones_with_pos(2^32 - 5) = {:?}", got);
    Ok(())
}

fn bvm_many_ones(ctx: &mut Ctx) -> CheckResult {
    let n = (1usize << 32) + 1000;
    let mut m = BitVectorMut::new();
    note("build", 0, 0, 0);
    m.extend_with_zeros(n);
    let mut i = 0;
    while i + 64 <= n {
        m.set_bits(i, 64, u64::MAX);
        i += 64;
    }
    while i < n {
        m.set(i, true);
        i += 1;
    }
    ctx.q();
    let who = "BitVectorMut (2^32 + 1000 ones)";
    ensure!(m.count_ones() == n && m.count_zeros() == 0, "{who}: count_ones = {}, count_zeros = {}", m.count_ones(), m.count_zeros());
    let im: BitVector = m.into();
    ensure!(im.count_ones() == n && im.len() == n, "BitVector::from(BitVectorMut) with 2^32 + 1000 ones: count_ones = {}", im.count_ones());
    let back: BitVectorMut = im.into();
    ensure!(back.count_ones() == n, "back to BitVectorMut: count_ones = {}", back.count_ones());
    ensure!(back.get(n - 1) == Some(true) && back.get(n).is_none(), "{who}: get at the end");
    Ok(())
}

fn popcnt_wide_huge(ctx: &mut Ctx) -> CheckResult {
    const N: usize = 1 << 26;
    let data = vec![u64::MAX; N];
    ctx.q();
    note("popcnt_wide", N as u128, 0, 0);
    let g = qwt::utils::popcnt_wide::<N>(&data);
    ensure!(g == N * 64, "popcnt_wide::<2^26> over all-ones words = {g}, expected {}", N * 64);
    let g = qwt::utils::popcnt_wide::<{ (1 << 26) - 1 }>(&data);
    ensure!(g == (N - 1) * 64, "popcnt_wide::<2^26 - 1> = {g}");
    let _ = unreachable_fail;
    Ok(())
}

/// bincode round trips of values whose payload exceeds the 1 MiB that serde pre-allocates for
/// sequences: the deserialized value must equal the original, answer alike and (C14) not retain
/// more heap than the original
fn big_roundtrips(ctx: &mut Ctx, space: bool) -> CheckResult {
    use crate::alloc::live;
    let mut r = crate::util::Rng::new(99);
    // 4.5 M quaternary symbols (1.1 MiB of lines), 9.5 M bits (1.2 MiB)
    let q: Vec<u8> = (0..4_500_003usize).map(|_| (r.next_u64() & 3) as u8).collect();
    let bits: Vec<bool> = (0..9_500_011usize).map(|i| r.next_u64() % 7 == 0 || i % 4099 == 0).collect();
    macro_rules! rt {
        ($name:expr, $ty:ty, $build:expr, $probe:expr) => {{
            note("roundtrip", 0, 0, 0);
            let before = live();
            let v: $ty = $build;
            let h0 = live().saturating_sub(before);
            let bytes = bincode::serialize(&v).map_err(|e| crate::runner::Failure::new(format!("{}: serialize failed: {e}", $name)))?;
            let before = live();
            let w: $ty = match bincode::deserialize(&bytes) {
                Ok(w) => w,
                Err(e) => fail!("{}: deserialize of its own serialization ({} bytes) failed: {e}", $name, bytes.len()),
            };
            let h1 = live().saturating_sub(before);
            ctx.q();
            ensure!(w == v, "{}: deserialized value != original", $name);
            let again = bincode::serialize(&w).map_err(|e| crate::runner::Failure::new(format!("{}: re-serialize failed: {e}", $name)))?;
            ensure!(again == bytes, "{}: serialize(deserialize(bytes)) != bytes", $name);
            let probe: fn(&$ty) -> Vec<Option<usize>> = $probe;
            ensure!(probe(&w) == probe(&v), "{}: the deserialized value answers differently", $name);
            if space && crate::alloc::installed() {
                ensure!(h1 as f64 <= 1.02 * h0 as f64 + 4096.0, "{}: the deserialized copy retains {} heap bytes, the original {} (n is above serde's 1 MiB pre-allocation cap)", $name, h1, h0);
            }
        }};
    }
    rt!("QVector (4.5 M symbols)", QVector, q.iter().copied().collect(), |v| vec![Some(v.len()), v.get(4_500_002).map(|x| x as usize), v.get(4_194_304).map(|x| x as usize)]);
    rt!("RSQVector256 (4.5 M symbols)", RSQVector256, q.iter().copied().collect(), |v| vec![v.rank(2, 4_400_000), v.select(1, 1_000_000), v.select(3, 1_100_000), v.occs(0)]);
    rt!("QWT512<u8> (4.5 M symbols)", qwt::QWT512<u8>, q.iter().copied().collect(), |v| vec![v.rank(2, 4_400_000), v.select(1, 1_000_000), v.get(4_500_000).map(|x| x as usize)]);
    rt!("BitVector (9.5 M bits)", BitVector, bits.iter().copied().collect(), |v| vec![Some(v.len()), Some(v.count_ones()), v.get(9_500_010).map(|x| x as usize)]);
    rt!("RSWide (9.5 M bits)", RSWide, RSWide::new(bits.iter().copied().collect()), |v| vec![v.rank1(9_400_000), v.select1(1_000_000), v.select0(7_000_000)]);
    rt!("RSNarrow (9.5 M bits)", RSNarrow, RSNarrow::new(bits.iter().copied().collect()), |v| vec![v.rank1(9_400_000), v.select1(1_000_000), v.select0(7_000_000)]);
    rt!("DArray<true> (9.5 M bits)", DArray<true>, bits.iter().copied().collect(), |v| vec![v.select1(1_000_000), v.select0(7_000_000), Some(v.len())]);
    rt!("WT<u8> (4.5 M symbols)", qwt::WT<u8>, q.iter().copied().collect(), |v| vec![v.rank(2, 4_400_000), v.select(1, 1_000_000)]);
    Ok(())
}
fn big_roundtrips_eq(ctx: &mut Ctx) -> CheckResult {
    big_roundtrips(ctx, false)
}
fn big_roundtrips_space(ctx: &mut Ctx) -> CheckResult {
    big_roundtrips(ctx, true)
}

pub fn probes_for(id: &str) -> Vec<Probe> {
    match id {
        "C11" => vec![Probe { name: "roundtrip-above-1MiB", run: big_roundtrips_eq, quick: true }],
        "C14" => vec![Probe { name: "roundtrip-retained-heap", run: big_roundtrips_space, quick: true }],
        "C01" => vec![Probe { name: "qwt256-u8-2^27", run: qwt_long, quick: true }],
        "C05" => vec![Probe { name: "rsqvector256-periodic-2^27", run: quad_256, quick: true }, Probe { name: "rsqvector512-periodic-2^28", run: quad_512, quick: true }],
        "C06" => vec![Probe { name: "rsnarrow-sparse-2^32", run: narrow_sparse, quick: false }, Probe { name: "rswide-sparse-2^32", run: wide_sparse, quick: false }],
        "C07" => vec![Probe { name: "darray-positions-beyond-2^32", run: darray_beyond_u32, quick: false }],
        "C08" => vec![Probe { name: "bitvectormut-2^32-ones", run: bvm_many_ones, quick: false }],
        "C17" => vec![Probe { name: "popcnt_wide-2^26-words", run: popcnt_wide_huge, quick: false }],
        _ => vec![],
    }
}

#[allow(dead_code)]
fn unreachable_fail() -> CheckResult {
    fail!("unreachable")
}
