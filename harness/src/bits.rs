//! Uniform access to the six bit-vector structures.
use qwt::{
    AccessBin, BitVector, BitVectorMut, DArray, RSNarrow, RSWide, RankBin, SelectBin, SpaceUsage,
};
use serde::{Deserialize, Serialize};

#[derive(Clone, Copy, Debug, PartialEq, Eq, Hash, Serialize, Deserialize, PartialOrd, Ord)]
pub enum BitsKind {
    Bv,
    Bvm,
    Narrow,
    Wide,
    Da0,
    Da1,
}

impl BitsKind {
    pub const ALL: [BitsKind; 6] = [
        BitsKind::Bv,
        BitsKind::Bvm,
        BitsKind::Narrow,
        BitsKind::Wide,
        BitsKind::Da0,
        BitsKind::Da1,
    ];
    pub fn name(self) -> &'static str {
        match self {
            BitsKind::Bv => "BitVector",
            BitsKind::Bvm => "BitVectorMut",
            BitsKind::Narrow => "RSNarrow",
            BitsKind::Wide => "RSWide",
            BitsKind::Da0 => "DArray<false>",
            BitsKind::Da1 => "DArray<true>",
        }
    }
    pub fn has_rank(self) -> bool {
        matches!(self, BitsKind::Narrow | BitsKind::Wide)
    }
    pub fn has_select(self) -> bool {
        !matches!(self, BitsKind::Bv | BitsKind::Bvm)
    }
}

/// How the underlying plain bit vector is obtained.
#[derive(Clone, Copy, Debug, PartialEq, Eq, Hash, Serialize, Deserialize, PartialOrd, Ord)]
pub enum BvHow {
    /// `bools.collect::<BitVector>()`
    Bools,
    /// pushes into a BitVectorMut, then `into()`
    Pushes,
    /// positions of ones as usize (the vector ends at the last one)
    PosUsize,
    PosU32,
    PosU64,
    PosI64,
    /// `BitVectorMut::with_zeros(z)` for the leading zeros (z a multiple of 512 when there are that
    /// many), then the remaining bits are pushed / appended
    ZerosThenPush,
    /// positions of ones, every position listed twice and in a rotated order (position lists of
    /// bit vectors may come in any order and repeat)
    PosDup,
    /// `BitVector::default()` / `T::default()` (empty only)
    Default,
    /// bools collected from an iterator with an inexact size hint (`loose::loose_iter`)
    BoolsLoose(u8),
    /// positions (usize) collected from an iterator with an inexact size hint
    PosLoose(u8),
    /// `BitVectorMut::new()`, then the bits in pieces: `extend` from exact and loose bool
    /// iterators, single pushes for short pieces; then `into()`
    ExtendPieces(u8),
    /// `BitVectorMut::with_zeros(n)`, then `set(p, true)` for every one (in a rotated order), then
    /// `into()`
    ZerosThenSet,
}

impl BvHow {
    pub fn is_positions(self) -> bool {
        matches!(self, BvHow::PosUsize | BvHow::PosU32 | BvHow::PosU64 | BvHow::PosI64 | BvHow::PosDup | BvHow::PosLoose(_))
    }
}

/// How the wrapping structure is obtained from the plain bit vector.
#[derive(Clone, Copy, Debug, PartialEq, Eq, Hash, Serialize, Deserialize, PartialOrd, Ord)]
pub enum WrapHow {
    New,
    From,
    /// collect directly into the structure (DArray only; others fall back to New)
    Collect,
    Default,
}

#[derive(Clone, PartialEq, Debug)]
pub enum BitsVal {
    Bv(BitVector),
    Bvm(BitVectorMut),
    Narrow(RSNarrow),
    Wide(RSWide),
    Da0(DArray<false>),
    Da1(DArray<true>),
}

pub fn positions_of(bits: &[bool]) -> Vec<usize> {
    bits.iter().enumerate().filter(|(_, &b)| b).map(|(i, _)| i).collect()
}

pub fn plain_bv(how: BvHow, bits: &[bool]) -> BitVector {
    match how {
        BvHow::Bools => bits.iter().copied().collect(),
        BvHow::Pushes => {
            let mut m = BitVectorMut::new();
            for &b in bits {
                m.push(b);
            }
            m.into()
        }
        BvHow::PosUsize => positions_of(bits).into_iter().collect(),
        BvHow::PosU32 => positions_of(bits).into_iter().map(|x| x as u32).collect(),
        BvHow::PosU64 => positions_of(bits).into_iter().map(|x| x as u64).collect(),
        BvHow::PosI64 => positions_of(bits).into_iter().map(|x| x as i64).collect(),
        BvHow::ZerosThenPush => {
            let lead = bits.iter().position(|&b| b).unwrap_or(bits.len());
            let z = if lead >= 512 { lead / 512 * 512 } else { lead };
            let mut m = BitVectorMut::with_zeros(z);
            let rest = &bits[z..];
            let mut i = 0;
            while i < rest.len() {
                // alternate single pushes and 64-bit appends
                if i % 3 == 0 && i + 64 <= rest.len() {
                    let mut w = 0u64;
                    for j in 0..64 {
                        w |= (rest[i + j] as u64) << j;
                    }
                    m.append_bits(w, 64);
                    i += 64;
                } else {
                    m.push(rest[i]);
                    i += 1;
                }
            }
            m.into()
        }
        BvHow::PosDup => {
            let p = positions_of(bits);
            let n = p.len();
            // the maximum first (fixes the length), then every position twice, rotated
            let mut v: Vec<usize> = Vec::with_capacity(2 * n + 1);
            if let Some(&mx) = p.last() {
                v.push(mx);
                for k in 0..n {
                    let x = p[(k + n / 3) % n];
                    v.push(x);
                    v.push(x);
                }
                v.push(mx);
            }
            v.into_iter().collect()
        }
        BvHow::Default => BitVector::default(),
        BvHow::BoolsLoose(mode) => crate::loose::loose_iter(bits.to_vec(), mode).collect(),
        BvHow::PosLoose(mode) => crate::loose::loose_iter(positions_of(bits), mode).collect(),
        BvHow::ZerosThenSet => {
            let mut m = BitVectorMut::with_zeros(bits.len());
            let p = positions_of(bits);
            let k = p.len();
            for j in 0..k {
                m.set(p[(j + k / 3) % k], true);
            }
            m.into()
        }
        BvHow::ExtendPieces(mode) => {
            let mut m = BitVectorMut::new();
            for (j, piece) in crate::loose::pieces(bits, mode as u64).into_iter().enumerate() {
                match (j + mode as usize) % 3 {
                    0 if piece.len() < 40 => {
                        for b in piece {
                            m.push(b);
                        }
                    }
                    1 => m.extend(piece),
                    _ => m.extend(crate::loose::loose_iter(piece, mode.wrapping_mul(37).wrapping_add(j as u8))),
                }
            }
            m.into()
        }
    }
}

/// The bits a vector built through `how` actually holds (position lists end at the last one).
pub fn effective_bits(how: BvHow, bits: &[bool]) -> Vec<bool> {
    if how.is_positions() {
        match bits.iter().rposition(|&b| b) {
            Some(p) => bits[..=p].to_vec(),
            None => vec![],
        }
    } else if how == BvHow::Default {
        vec![]
    } else {
        bits.to_vec()
    }
}

impl BitsVal {
    pub fn build(kind: BitsKind, bvhow: BvHow, wrap: WrapHow, bits: &[bool]) -> BitsVal {
        if wrap == WrapHow::Default {
            return match kind {
                BitsKind::Bv => BitsVal::Bv(BitVector::default()),
                BitsKind::Bvm => BitsVal::Bvm(BitVectorMut::default()),
                BitsKind::Narrow => BitsVal::Narrow(RSNarrow::default()),
                BitsKind::Wide => BitsVal::Wide(RSWide::default()),
                BitsKind::Da0 => BitsVal::Da0(DArray::<false>::default()),
                BitsKind::Da1 => BitsVal::Da1(DArray::<true>::default()),
            };
        }
        if wrap == WrapHow::Collect {
            match (kind, bvhow) {
                (BitsKind::Da0, BvHow::Bools) => return BitsVal::Da0(bits.iter().copied().collect()),
                (BitsKind::Da1, BvHow::Bools) => return BitsVal::Da1(bits.iter().copied().collect()),
                (BitsKind::Da0, BvHow::PosUsize) => return BitsVal::Da0(positions_of(bits).into_iter().collect()),
                (BitsKind::Da1, BvHow::PosUsize) => return BitsVal::Da1(positions_of(bits).into_iter().collect()),
                (BitsKind::Da0, BvHow::PosU32) => return BitsVal::Da0(positions_of(bits).into_iter().map(|x| x as u32).collect()),
                (BitsKind::Da1, BvHow::PosU32) => return BitsVal::Da1(positions_of(bits).into_iter().map(|x| x as u32).collect()),
                (BitsKind::Da0, BvHow::PosU64) => return BitsVal::Da0(positions_of(bits).into_iter().map(|x| x as u64).collect()),
                (BitsKind::Da1, BvHow::PosU64) => return BitsVal::Da1(positions_of(bits).into_iter().map(|x| x as u64).collect()),
                (BitsKind::Da0, BvHow::PosI64) => return BitsVal::Da0(positions_of(bits).into_iter().map(|x| x as i64).collect()),
                (BitsKind::Da1, BvHow::PosI64) => return BitsVal::Da1(positions_of(bits).into_iter().map(|x| x as i64).collect()),
                (BitsKind::Da0, BvHow::BoolsLoose(mode)) => return BitsVal::Da0(crate::loose::loose_iter(bits.to_vec(), mode).collect()),
                (BitsKind::Da1, BvHow::BoolsLoose(mode)) => return BitsVal::Da1(crate::loose::loose_iter(bits.to_vec(), mode).collect()),
                (BitsKind::Da0, BvHow::PosLoose(mode)) => return BitsVal::Da0(crate::loose::loose_iter(positions_of(bits), mode).collect()),
                (BitsKind::Da1, BvHow::PosLoose(mode)) => return BitsVal::Da1(crate::loose::loose_iter(positions_of(bits), mode).collect()),
                (BitsKind::Bvm, BvHow::BoolsLoose(mode)) => return BitsVal::Bvm(crate::loose::loose_iter(bits.to_vec(), mode).collect()),
                (BitsKind::Bvm, BvHow::PosLoose(mode)) => return BitsVal::Bvm(crate::loose::loose_iter(positions_of(bits), mode).collect()),
                (BitsKind::Bvm, BvHow::Bools) => return BitsVal::Bvm(bits.iter().copied().collect()),
                (BitsKind::Bvm, BvHow::PosUsize) => return BitsVal::Bvm(positions_of(bits).into_iter().collect()),
                _ => {}
            }
        }
        let bv = plain_bv(bvhow, bits);
        match kind {
            BitsKind::Bv => BitsVal::Bv(bv),
            BitsKind::Bvm => BitsVal::Bvm(bv.into()),
            BitsKind::Narrow => BitsVal::Narrow(if wrap == WrapHow::From { RSNarrow::from(bv) } else { RSNarrow::new(bv) }),
            BitsKind::Wide => BitsVal::Wide(if wrap == WrapHow::From { RSWide::from(bv) } else { RSWide::new(bv) }),
            BitsKind::Da0 => BitsVal::Da0(DArray::<false>::new(bv)),
            BitsKind::Da1 => BitsVal::Da1(DArray::<true>::new(bv)),
        }
    }

    pub fn kind(&self) -> BitsKind {
        match self {
            BitsVal::Bv(_) => BitsKind::Bv,
            BitsVal::Bvm(_) => BitsKind::Bvm,
            BitsVal::Narrow(_) => BitsKind::Narrow,
            BitsVal::Wide(_) => BitsKind::Wide,
            BitsVal::Da0(_) => BitsKind::Da0,
            BitsVal::Da1(_) => BitsKind::Da1,
        }
    }

    pub fn get(&self, i: usize) -> Option<bool> {
        match self {
            BitsVal::Bv(x) => x.get(i),
            BitsVal::Bvm(x) => x.get(i),
            BitsVal::Narrow(x) => x.get(i),
            BitsVal::Wide(x) => x.get(i),
            BitsVal::Da0(x) => x.get(i),
            BitsVal::Da1(x) => x.get(i),
        }
    }
    /// # Safety: i < len
    pub unsafe fn get_unchecked(&self, i: usize) -> bool {
        match self {
            BitsVal::Bv(x) => x.get_unchecked(i),
            BitsVal::Bvm(x) => x.get_unchecked(i),
            BitsVal::Narrow(x) => x.get_unchecked(i),
            BitsVal::Wide(x) => x.get_unchecked(i),
            BitsVal::Da0(x) => x.get_unchecked(i),
            BitsVal::Da1(x) => x.get_unchecked(i),
        }
    }
    pub fn rank1(&self, i: usize) -> Option<Option<usize>> {
        match self {
            BitsVal::Narrow(x) => Some(x.rank1(i)),
            BitsVal::Wide(x) => Some(x.rank1(i)),
            _ => None,
        }
    }
    pub fn rank0(&self, i: usize) -> Option<Option<usize>> {
        match self {
            BitsVal::Narrow(x) => Some(x.rank0(i)),
            BitsVal::Wide(x) => Some(x.rank0(i)),
            _ => None,
        }
    }
    /// # Safety: i <= len
    pub unsafe fn rank1_unchecked(&self, i: usize) -> Option<usize> {
        match self {
            BitsVal::Narrow(x) => Some(x.rank1_unchecked(i)),
            BitsVal::Wide(x) => Some(x.rank1_unchecked(i)),
            _ => None,
        }
    }
    /// # Safety: i <= len
    pub unsafe fn rank0_unchecked(&self, i: usize) -> Option<usize> {
        match self {
            BitsVal::Narrow(x) => Some(x.rank0_unchecked(i)),
            BitsVal::Wide(x) => Some(x.rank0_unchecked(i)),
            _ => None,
        }
    }
    pub fn select1(&self, k: usize) -> Option<Option<usize>> {
        match self {
            BitsVal::Narrow(x) => Some(x.select1(k)),
            BitsVal::Wide(x) => Some(x.select1(k)),
            BitsVal::Da0(x) => Some(x.select1(k)),
            BitsVal::Da1(x) => Some(x.select1(k)),
            _ => None,
        }
    }
    /// `None` for the types without select0 (DArray<false> panics by contract: not called here)
    pub fn select0(&self, k: usize) -> Option<Option<usize>> {
        match self {
            BitsVal::Narrow(x) => Some(x.select0(k)),
            BitsVal::Wide(x) => Some(x.select0(k)),
            BitsVal::Da1(x) => Some(x.select0(k)),
            _ => None,
        }
    }
    /// # Safety: k < number of ones
    pub unsafe fn select1_unchecked(&self, k: usize) -> Option<usize> {
        match self {
            BitsVal::Narrow(x) => Some(x.select1_unchecked(k)),
            BitsVal::Wide(x) => Some(x.select1_unchecked(k)),
            BitsVal::Da0(x) => Some(x.select1_unchecked(k)),
            BitsVal::Da1(x) => Some(x.select1_unchecked(k)),
            _ => None,
        }
    }
    /// # Safety: k < number of zeros
    pub unsafe fn select0_unchecked(&self, k: usize) -> Option<usize> {
        match self {
            BitsVal::Narrow(x) => Some(x.select0_unchecked(k)),
            BitsVal::Wide(x) => Some(x.select0_unchecked(k)),
            BitsVal::Da1(x) => Some(x.select0_unchecked(k)),
            _ => None,
        }
    }
    pub fn n_ones(&self) -> usize {
        match self {
            BitsVal::Bv(x) => x.count_ones(),
            BitsVal::Bvm(x) => x.count_ones(),
            BitsVal::Narrow(x) => x.n_ones(),
            BitsVal::Wide(x) => x.n_ones(),
            BitsVal::Da0(x) => x.count_ones(),
            BitsVal::Da1(x) => x.count_ones(),
        }
    }
    pub fn n_zeros(&self) -> usize {
        match self {
            BitsVal::Bv(x) => x.count_zeros(),
            BitsVal::Bvm(x) => x.count_zeros(),
            BitsVal::Narrow(x) => x.n_zeros(),
            BitsVal::Wide(x) => x.n_zeros(),
            BitsVal::Da0(x) => x.count_zeros(),
            BitsVal::Da1(x) => x.count_zeros(),
        }
    }
    /// RankBin::n_zeros through the trait (RSNarrow / RSWide)
    pub fn trait_n_zeros(&self) -> Option<usize> {
        match self {
            BitsVal::Narrow(x) => Some(RankBin::n_zeros(x)),
            BitsVal::Wide(x) => Some(RankBin::n_zeros(x)),
            _ => None,
        }
    }
    pub fn len(&self) -> Option<usize> {
        match self {
            BitsVal::Bv(x) => Some(x.len()),
            BitsVal::Bvm(x) => Some(x.len()),
            BitsVal::Narrow(_) => None,
            BitsVal::Wide(x) => Some(x.bv_len()),
            BitsVal::Da0(x) => Some(x.len()),
            BitsVal::Da1(x) => Some(x.len()),
        }
    }
    pub fn is_empty(&self) -> Option<bool> {
        match self {
            BitsVal::Bv(x) => Some(x.is_empty()),
            BitsVal::Bvm(x) => Some(x.is_empty()),
            BitsVal::Da0(x) => Some(x.is_empty()),
            BitsVal::Da1(x) => Some(x.is_empty()),
            _ => None,
        }
    }
    pub fn get_bits(&self, i: usize, l: usize) -> Option<Option<u64>> {
        match self {
            BitsVal::Bv(x) => Some(x.get_bits(i, l)),
            BitsVal::Bvm(x) => Some(x.get_bits(i, l)),
            _ => None,
        }
    }
    /// # Safety: i + l <= len, 1 <= l <= 64
    pub unsafe fn get_bits_unchecked(&self, i: usize, l: usize) -> Option<u64> {
        match self {
            BitsVal::Bv(x) => Some(x.get_bits_unchecked(i, l)),
            BitsVal::Bvm(x) => Some(x.get_bits_unchecked(i, l)),
            _ => None,
        }
    }
    pub fn get_word(&self, w: usize) -> Option<u64> {
        match self {
            BitsVal::Bv(x) => Some(x.get_word(w)),
            BitsVal::Bvm(x) => Some(x.get_word(w)),
            _ => None,
        }
    }
    pub fn iter(&self) -> Option<Box<dyn ExactSizeIterator<Item = bool> + '_>> {
        match self {
            BitsVal::Bv(x) => Some(Box::new(x.iter())),
            BitsVal::Bvm(x) => Some(Box::new(x.iter())),
            BitsVal::Da0(x) => Some(Box::new(x.iter())),
            BitsVal::Da1(x) => Some(Box::new(x.iter())),
            _ => None,
        }
    }
    pub fn into_iter(self) -> Option<Box<dyn ExactSizeIterator<Item = bool>>> {
        match self {
            BitsVal::Bv(x) => Some(Box::new(x.into_iter())),
            BitsVal::Bvm(x) => Some(Box::new(x.into_iter())),
            _ => None,
        }
    }
    /// `(&bv).into_iter()` (BitVector only)
    pub fn ref_into_iter(&self) -> Option<Box<dyn ExactSizeIterator<Item = bool> + '_>> {
        match self {
            BitsVal::Bv(x) => Some(Box::new(<&BitVector as IntoIterator>::into_iter(x))),
            _ => None,
        }
    }
    pub fn ones(&self) -> Option<Box<dyn Iterator<Item = usize> + '_>> {
        match self {
            BitsVal::Bv(x) => Some(Box::new(x.ones())),
            BitsVal::Bvm(x) => Some(Box::new(x.ones())),
            BitsVal::Da0(x) => Some(Box::new(x.ones())),
            BitsVal::Da1(x) => Some(Box::new(x.ones())),
            _ => None,
        }
    }
    pub fn zeros(&self) -> Option<Box<dyn Iterator<Item = usize> + '_>> {
        match self {
            BitsVal::Bv(x) => Some(Box::new(x.zeros())),
            BitsVal::Bvm(x) => Some(Box::new(x.zeros())),
            BitsVal::Da0(x) => Some(Box::new(x.zeros())),
            BitsVal::Da1(x) => Some(Box::new(x.zeros())),
            _ => None,
        }
    }
    pub fn ones_with_pos(&self, p: usize) -> Option<Box<dyn Iterator<Item = usize> + '_>> {
        match self {
            BitsVal::Bv(x) => Some(Box::new(x.ones_with_pos(p))),
            BitsVal::Bvm(x) => Some(Box::new(x.ones_with_pos(p))),
            BitsVal::Da0(x) => Some(Box::new(x.ones_with_pos(p))),
            BitsVal::Da1(x) => Some(Box::new(x.ones_with_pos(p))),
            _ => None,
        }
    }
    pub fn zeros_with_pos(&self, p: usize) -> Option<Box<dyn Iterator<Item = usize> + '_>> {
        match self {
            BitsVal::Bv(x) => Some(Box::new(x.zeros_with_pos(p))),
            BitsVal::Bvm(x) => Some(Box::new(x.zeros_with_pos(p))),
            BitsVal::Da0(x) => Some(Box::new(x.zeros_with_pos(p))),
            BitsVal::Da1(x) => Some(Box::new(x.zeros_with_pos(p))),
            _ => None,
        }
    }
    /// prefetch entry points and other argument-taking safe methods without a result
    pub fn prefetch(&self, p: usize) {
        match self {
            BitsVal::Bv(x) => {
                x.prefetch_line(p);
                let _ = x.n_lines();
            }
            BitsVal::Wide(x) => {
                x.prefetch_info(p);
                x.prefetch_data(p);
            }
            _ => {}
        }
    }
    /// provided iterator methods on the concrete iterator types of this structure
    pub fn check_iter_adapters(&self, m: &crate::model::BitModel, seed: u64, ctx: &mut crate::runner::Ctx) -> crate::runner::CheckResult {
        use crate::iteradapt::check_adapters as ca;
        let who = self.kind().name();
        let n = m.n();
        let p = if n == 0 { 0 } else { (seed as usize) % (n + 1) };
        let from1 = m.ones.partition_point(|&x| x < p);
        let from0 = m.zeros.partition_point(|&x| x < p);
        macro_rules! common {
            ($x:expr) => {{
                ca(|| $x.iter(), &m.b, seed, &format!("{who} iter()"), ctx)?;
                ca(|| $x.ones(), &m.ones, seed ^ 1, &format!("{who} ones()"), ctx)?;
                ca(|| $x.zeros(), &m.zeros, seed ^ 2, &format!("{who} zeros()"), ctx)?;
                ca(|| $x.ones_with_pos(p), &m.ones[from1..], seed ^ 3, &format!("{who} ones_with_pos({p})"), ctx)?;
                ca(|| $x.zeros_with_pos(p), &m.zeros[from0..], seed ^ 4, &format!("{who} zeros_with_pos({p})"), ctx)?;
            }};
        }
        match self {
            BitsVal::Bv(x) => {
                common!(x);
                ca(|| <&BitVector as IntoIterator>::into_iter(x), &m.b, seed ^ 5, &format!("{who} (&bv).into_iter()"), ctx)?;
                if n <= 20_000 {
                    ca(|| x.clone().into_iter(), &m.b, seed ^ 6, &format!("{who} into_iter()"), ctx)?;
                }
            }
            BitsVal::Bvm(x) => {
                common!(x);
                if n <= 20_000 {
                    ca(|| x.clone().into_iter(), &m.b, seed ^ 6, &format!("{who} into_iter()"), ctx)?;
                }
            }
            BitsVal::Da0(x) => common!(x),
            BitsVal::Da1(x) => common!(x),
            _ => {}
        }
        Ok(())
    }
    /// `let mut d = donor.clone(); d.clone_from(self); d`
    pub fn clone_from_into(&self, donor: &BitsVal) -> Option<BitsVal> {
        macro_rules! cf {
            ($v:ident, $x:expr, $d:expr) => {{
                let mut d = $d.clone();
                d.clone_from($x);
                Some(BitsVal::$v(d))
            }};
        }
        match (self, donor) {
            (BitsVal::Bv(x), BitsVal::Bv(d)) => cf!(Bv, x, d),
            (BitsVal::Bvm(x), BitsVal::Bvm(d)) => cf!(Bvm, x, d),
            (BitsVal::Narrow(x), BitsVal::Narrow(d)) => cf!(Narrow, x, d),
            (BitsVal::Wide(x), BitsVal::Wide(d)) => cf!(Wide, x, d),
            (BitsVal::Da0(x), BitsVal::Da0(d)) => cf!(Da0, x, d),
            (BitsVal::Da1(x), BitsVal::Da1(d)) => cf!(Da1, x, d),
            _ => None,
        }
    }
    pub fn ser(&self) -> Result<Vec<u8>, String> {
        let r = match self {
            BitsVal::Bv(x) => bincode::serialize(x),
            BitsVal::Bvm(x) => bincode::serialize(x),
            BitsVal::Narrow(x) => bincode::serialize(x),
            BitsVal::Wide(x) => bincode::serialize(x),
            BitsVal::Da0(x) => bincode::serialize(x),
            BitsVal::Da1(x) => bincode::serialize(x),
        };
        r.map_err(|e| e.to_string())
    }
    pub fn de_same(&self, b: &[u8]) -> Result<BitsVal, String> {
        let e = |e: bincode::Error| e.to_string();
        Ok(match self {
            BitsVal::Bv(_) => BitsVal::Bv(bincode::deserialize(b).map_err(e)?),
            BitsVal::Bvm(_) => BitsVal::Bvm(bincode::deserialize(b).map_err(e)?),
            BitsVal::Narrow(_) => BitsVal::Narrow(bincode::deserialize(b).map_err(e)?),
            BitsVal::Wide(_) => BitsVal::Wide(bincode::deserialize(b).map_err(e)?),
            BitsVal::Da0(_) => BitsVal::Da0(bincode::deserialize(b).map_err(e)?),
            BitsVal::Da1(_) => BitsVal::Da1(bincode::deserialize(b).map_err(e)?),
        })
    }
    pub fn space_usage_byte(&self) -> usize {
        match self {
            BitsVal::Bv(x) => x.space_usage_byte(),
            BitsVal::Bvm(x) => x.space_usage_byte(),
            BitsVal::Narrow(x) => x.space_usage_byte(),
            BitsVal::Wide(x) => x.space_usage_byte(),
            BitsVal::Da0(x) => x.space_usage_byte(),
            BitsVal::Da1(x) => x.space_usage_byte(),
        }
    }
    pub fn space_scaled(&self) -> (f64, f64, f64) {
        match self {
            BitsVal::Bv(x) => (x.space_usage_KiB(), x.space_usage_MiB(), x.space_usage_GiB()),
            BitsVal::Bvm(x) => (x.space_usage_KiB(), x.space_usage_MiB(), x.space_usage_GiB()),
            BitsVal::Narrow(x) => (x.space_usage_KiB(), x.space_usage_MiB(), x.space_usage_GiB()),
            BitsVal::Wide(x) => (x.space_usage_KiB(), x.space_usage_MiB(), x.space_usage_GiB()),
            BitsVal::Da0(x) => (x.space_usage_KiB(), x.space_usage_MiB(), x.space_usage_GiB()),
            BitsVal::Da1(x) => (x.space_usage_KiB(), x.space_usage_MiB(), x.space_usage_GiB()),
        }
    }
    pub fn size_of_val(&self) -> usize {
        match self {
            BitsVal::Bv(x) => std::mem::size_of_val(x),
            BitsVal::Bvm(x) => std::mem::size_of_val(x),
            BitsVal::Narrow(x) => std::mem::size_of_val(x),
            BitsVal::Wide(x) => std::mem::size_of_val(x),
            BitsVal::Da0(x) => std::mem::size_of_val(x),
            BitsVal::Da1(x) => std::mem::size_of_val(x),
        }
    }
}

/// compile-time: SelectBin / RankBin / AccessBin are implemented where the adapter says so
#[allow(dead_code)]
fn _assert_traits() {
    fn sel<T: SelectBin>() {}
    fn rank<T: RankBin>() {}
    fn acc<T: AccessBin>() {}
    sel::<RSNarrow>();
    sel::<RSWide>();
    sel::<DArray<false>>();
    sel::<DArray<true>>();
    rank::<RSNarrow>();
    rank::<RSWide>();
    acc::<BitVector>();
    acc::<BitVectorMut>();
}
