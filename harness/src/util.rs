//! Small deterministic helpers: PRNG used to expand generated seeds, hashing, panic capture.
use std::cell::RefCell;
use std::hash::{Hash, Hasher};

/// splitmix64: used only to expand a *generated* 64-bit seed into a longer deterministic
/// stream (recipes, query plans). Every seed comes out of a proptest strategy or a fuzz input.
#[derive(Clone, Debug)]
pub struct Rng(pub u64);

impl Rng {
    pub fn new(seed: u64) -> Self {
        Rng(seed ^ 0x9E37_79B9_7F4A_7C15)
    }
    #[inline]
    pub fn next_u64(&mut self) -> u64 {
        self.0 = self.0.wrapping_add(0x9E37_79B9_7F4A_7C15);
        let mut z = self.0;
        z = (z ^ (z >> 30)).wrapping_mul(0xBF58_476D_1CE4_E5B9);
        z = (z ^ (z >> 27)).wrapping_mul(0x94D0_49BB_1331_11EB);
        z ^ (z >> 31)
    }
    /// uniform in 0..n (n > 0)
    #[inline]
    pub fn below(&mut self, n: u64) -> u64 {
        ((self.next_u64() as u128 * n as u128) >> 64) as u64
    }
    #[inline]
    pub fn below_usize(&mut self, n: usize) -> usize {
        self.below(n as u64) as usize
    }
    pub fn next_u128(&mut self) -> u128 {
        ((self.next_u64() as u128) << 64) | self.next_u64() as u128
    }
    pub fn chance(&mut self, num: u64, den: u64) -> bool {
        self.below(den) < num
    }
    pub fn shuffle<T>(&mut self, v: &mut [T]) {
        for i in (1..v.len()).rev() {
            let j = self.below_usize(i + 1);
            v.swap(i, j);
        }
    }
}

pub fn mix(a: u64, b: u64) -> u64 {
    let mut r = Rng::new(a.wrapping_mul(0xD6E8_FEB8_6659_FD93) ^ b);
    r.next_u64()
}

/// Deterministic hash (SipHash with fixed zero keys).
pub fn hash_of<T: Hash>(v: &T) -> u64 {
    #[allow(deprecated)]
    let mut h = std::hash::SipHasher::new();
    v.hash(&mut h);
    h.finish()
}

pub fn hash_str(s: &str) -> u64 {
    hash_of(&s)
}

thread_local! {
    static LAST_PANIC: RefCell<Option<String>> = const { RefCell::new(None) };
    static CATCHING: std::cell::Cell<u32> = const { std::cell::Cell::new(0) };
    /// Free-form note describing the call in flight (set cheaply before calls into qwt).
    static NOTE: RefCell<Note> = const { RefCell::new(Note { op: "", a: 0, b: 0, c: 0 }) };
}

#[derive(Clone, Copy, Debug)]
pub struct Note {
    pub op: &'static str,
    pub a: u128,
    pub b: u128,
    pub c: u128,
}

#[inline]
pub fn note(op: &'static str, a: u128, b: u128, c: u128) {
    NOTE.with(|n| *n.borrow_mut() = Note { op, a, b, c });
}

pub fn current_note() -> Note {
    NOTE.with(|n| *n.borrow())
}

/// Installs a panic hook that records message and location in a thread local instead of
/// printing (qwt panics are data for the checks, not noise for the log).
pub fn install_quiet_panic_hook() {
    std::panic::set_hook(Box::new(|info| {
        let msg = if let Some(s) = info.payload().downcast_ref::<&str>() {
            s.to_string()
        } else if let Some(s) = info.payload().downcast_ref::<String>() {
            s.clone()
        } else {
            "<non-string panic payload>".to_string()
        };
        let loc = info
            .location()
            .map(|l| format!("{}:{}", l.file(), l.line()))
            .unwrap_or_default();
        if CATCHING.with(|c| c.get()) == 0 {
            eprintln!("harness panic (outside a checked call): {msg} @ {loc}");
        }
        LAST_PANIC.with(|p| *p.borrow_mut() = Some(format!("{msg} @ {loc}")));
    }));
}

/// Hook for the libFuzzer targets: libfuzzer-sys aborts on *every* panic, also on the ones the
/// checks provoke on purpose inside `catch` (documented rejections). This hook keeps those quiet
/// and aborts (= libFuzzer crash) only for a panic outside `catch`, i.e. a reported violation.
pub fn install_fuzz_panic_hook() {
    std::panic::set_hook(Box::new(|info| {
        let msg = if let Some(s) = info.payload().downcast_ref::<&str>() {
            s.to_string()
        } else if let Some(s) = info.payload().downcast_ref::<String>() {
            s.clone()
        } else {
            "<non-string panic payload>".to_string()
        };
        let loc = info
            .location()
            .map(|l| format!("{}:{}", l.file(), l.line()))
            .unwrap_or_default();
        if CATCHING.with(|c| c.get()) == 0 {
            eprintln!("panic outside a checked call: {msg} @ {loc}");
            std::process::abort();
        }
        LAST_PANIC.with(|p| *p.borrow_mut() = Some(format!("{msg} @ {loc}")));
    }));
}

pub fn take_last_panic() -> Option<String> {
    LAST_PANIC.with(|p| p.borrow_mut().take())
}

/// Runs `f`, turning a panic into `Err(message @ location)`.
pub fn catch<R>(f: impl FnOnce() -> R) -> Result<R, String> {
    let _ = take_last_panic();
    CATCHING.with(|c| c.set(c.get() + 1));
    let r = std::panic::catch_unwind(std::panic::AssertUnwindSafe(f));
    CATCHING.with(|c| c.set(c.get() - 1));
    match r {
        Ok(r) => Ok(r),
        Err(_) => Err(take_last_panic().unwrap_or_else(|| "panic (no message)".into())),
    }
}

/// bit length of v (0 for 0)
pub fn bitlen(v: u128) -> u32 {
    128 - v.leading_zeros()
}

/// Debug name of an enum value without its payload (`CollectLoose(17)` -> `CollectLoose`): class
/// labels must not multiply by parameter values.
pub fn variant_name<T: std::fmt::Debug>(v: &T) -> String {
    let s = format!("{:?}", v);
    s.split(|c: char| c == '(' || c == ' ' || c == '{').next().unwrap_or("").to_string()
}

/// Out-of-range positions that come back into range when an implementation multiplies them by
/// 2, 4, 8, 64 or 512 (or shifts them left) before comparing with the length: 2^(64-s) + k for
/// k in {0, n/2, n-1}, and the positions just below usize::MAX whose +1 / +n wraps to a small
/// number.
pub fn wrap_positions(n: usize) -> Vec<usize> {
    let mut v = Vec::new();
    for s in [1u32, 2, 3, 6, 9] {
        let base = 1usize << (64 - s);
        for k in [0usize, n / 2, n.saturating_sub(1)] {
            v.push(base + k);
            v.push(base.wrapping_mul(3).wrapping_add(k) | base); // other high bits set as well
        }
    }
    v.push(usize::MAX - n);
    v.push((usize::MAX - n).wrapping_add(1));
    v.push(usize::MAX / 2);
    v.push(usize::MAX / 2 + 1);
    v.retain(|&x| x > n + 1);
    v
}
