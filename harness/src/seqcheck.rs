//! Comparison of a wavelet tree (through `DynSeq`) with the sequence model.
use crate::elem::ElemTy;
use crate::model::SeqModel;
use crate::runner::{CheckResult, Ctx};
use crate::trees::{DynSeq, TreeKind};
use crate::util::{note, Rng};
use crate::{ensure, fail};

#[derive(Clone, Copy, Debug, PartialEq, Eq)]
pub enum Exp {
    Exact(Option<usize>),
    /// empty plain structure, rank at position 0: `None` or `Some(0)` both satisfy the property
    NoneOrZero,
}

impl Exp {
    pub fn admits(self, got: Option<usize>) -> bool {
        match self {
            Exp::Exact(e) => e == got,
            Exp::NoneOrZero => got.is_none() || got == Some(0),
        }
    }
}

pub fn expect_rank(kind: TreeKind, m: &SeqModel, c: u128, i: usize) -> Exp {
    let n = m.n();
    if i > n {
        return Exp::Exact(None);
    }
    if kind.is_huffman() {
        if m.occurs(c) {
            Exp::Exact(Some(m.rank(c, i)))
        } else {
            Exp::Exact(None)
        }
    } else {
        match m.max() {
            None => Exp::NoneOrZero, // empty: i == 0 here
            Some(mx) if c > mx => Exp::Exact(None),
            Some(_) => Exp::Exact(Some(m.rank(c, i))),
        }
    }
}

pub fn expect_select(_kind: TreeKind, m: &SeqModel, c: u128, k: usize) -> Option<usize> {
    // identical for all kinds: the position when the occurrence exists, None otherwise
    m.select(c, k)
}

/// Positions worth asking about.
pub fn positions(n: usize, rng: &mut Rng, budget: usize) -> Vec<usize> {
    let mut v: Vec<usize> = Vec::new();
    if n <= 400 {
        v.extend(0..=n + 1);
    } else {
        v.extend([0, 1, 2, n - 1, n, n + 1]);
        for p in [64usize, 128, 256, 512, 1024, 2048, 4096, 8192, 32768] {
            let mut k = p;
            let mut cnt = 0;
            while k <= n + 1 && cnt < 12 {
                v.extend([k - 1, k, k + 1]);
                // spread over the whole range
                let step = ((n / p / 10).max(1)) * p;
                k += step;
                cnt += 1;
            }
            // the last multiple at or below n
            let last = n / p * p;
            if last > 0 {
                v.extend([last - 1, last, last + 1]);
            }
        }
        for _ in 0..budget {
            v.push(rng.below_usize(n + 1));
        }
    }
    v.extend([n + 2, 1usize << 32, 1usize << 43, usize::MAX - 1, usize::MAX]);
    v.extend(crate::util::wrap_positions(n));
    v.sort_unstable();
    v.dedup();
    v
}

/// Symbols worth asking about: present ones (sampled) and absent ones of several flavours.
pub fn symbols(m: &SeqModel, ty: ElemTy, rng: &mut Rng, max_present: usize) -> Vec<u128> {
    let tmax = ty.max();
    let mut v: Vec<u128> = Vec::new();
    let present: Vec<u128> = m.pos.keys().copied().collect();
    if present.len() <= max_present {
        v.extend(present.iter().copied());
    } else {
        v.push(present[0]);
        v.push(*present.last().unwrap());
        // most and least frequent
        let mf = m.pos.iter().max_by_key(|(_, p)| p.len()).unwrap().0;
        let lf = m.pos.iter().min_by_key(|(_, p)| p.len()).unwrap().0;
        v.push(*mf);
        v.push(*lf);
        for _ in 0..max_present {
            v.push(present[rng.below_usize(present.len())]);
        }
    }
    // absent / invalid
    let mx = m.max().unwrap_or(0);
    v.extend([0, 1, 2, 3, 4, 5]);
    for d in 1..=2u128 {
        if let Some(x) = mx.checked_add(d) {
            v.push(x);
        }
    }
    if mx > 0 {
        v.push(mx - 1);
    }
    // a hole between two present symbols
    for w in present.windows(2).take(50) {
        if w[1] - w[0] > 1 {
            v.push(w[0] + 1);
            break;
        }
    }
    v.push(tmax);
    v.push(tmax - 1);
    v.push(rng.next_u128() & tmax);
    // values that alias a present symbol when truncated to 8/16/32/64 bits
    for &p in present.iter().take(3) {
        for k in [8u32, 16, 20, 32, 64] {
            if k < ty.bits() {
                let a = p | (1u128 << k);
                if a <= tmax {
                    v.push(a);
                }
                let b = p.wrapping_add(1u128 << k) & tmax;
                v.push(b);
            }
        }
    }
    // first power of 4 / 2 above max
    let bl = crate::util::bitlen(mx);
    for k in [bl, bl + 1, bl + 2] {
        if k < ty.bits() {
            v.push(1u128 << k);
        }
    }
    v.retain(|&x| x <= tmax);
    v.sort_unstable();
    v.dedup();
    v
}

pub fn occurrence_indices(count: usize, rng: &mut Rng, budget: usize) -> Vec<usize> {
    let mut v = Vec::new();
    if count <= 300 {
        v.extend(0..=count + 1);
    } else {
        v.extend([0, 1, count - 1, count, count + 1]);
        let mut k = 8192;
        let mut c = 0;
        while k <= count + 1 && c < 8 {
            v.extend([k - 1, k, k + 1]);
            k += 8192 * ((count / 8192 / 8).max(1));
            c += 1;
        }
        for p in [255usize, 256, 257, 511, 512, 513, 1023, 1024, 1025, 2047, 2048, 2049, 4095, 4096, 4097] {
            if p <= count {
                v.push(p);
            }
        }
        for _ in 0..budget {
            v.push(rng.below_usize(count));
        }
    }
    v.extend([usize::MAX, usize::MAX - 1, 1usize << 43]);
    v.sort_unstable();
    v.dedup();
    v
}

#[derive(Clone, Copy, Debug)]
pub struct SeqOpts {
    /// compare rank_prefetch with the model (quad kinds)
    pub prefetch: bool,
    /// call the unchecked twins on valid arguments and compare with the checked answers
    pub unchecked: bool,
    /// rough number of sampled positions / indices per symbol
    pub budget: usize,
    /// check get(i) for every i (else sampled) when n is at most this
    pub full_get_upto: usize,
}

impl Default for SeqOpts {
    fn default() -> Self {
        SeqOpts {
            prefetch: true,
            unchecked: false,
            budget: 40,
            full_get_upto: 3000,
        }
    }
}

pub fn describe(t: &dyn DynSeq) -> String {
    format!("{}<{}>", t.kind().name(), t.ty().name())
}

/// Full differential check of a tree against the model. Returns Err on the first disagreement.
pub fn check_tree(
    t: &dyn DynSeq,
    m: &SeqModel,
    plan_seed: u64,
    o: SeqOpts,
    ctx: &mut Ctx,
) -> CheckResult {
    let kind = t.kind();
    let ty = t.ty();
    let n = m.n();
    let who = describe(t);
    let mut rng = Rng::new(plan_seed);

    note("len", 0, 0, 0);
    let l = t.len();
    ctx.q();
    ctx.absorb(&l);
    ensure!(l == n, "{who}: len() = {l}, expected {n}");
    note("is_empty", 0, 0, 0);
    let e = t.is_empty();
    ctx.q();
    ensure!(e == (n == 0), "{who}: is_empty() = {e} with n = {n}");
    if let Some(sg) = t.sigma() {
        ctx.q();
        ctx.absorb(&sg);
        ensure!(
            sg == m.max(),
            "{who}: sigma() = {:?}, expected {:?}",
            sg,
            m.max()
        );
    }

    // ---- get
    let pos = positions(n, &mut rng, o.budget * 5);
    if n <= o.full_get_upto {
        for i in 0..n {
            note("get", i as u128, 0, 0);
            let g = t.get(i);
            ctx.q();
            ctx.absorb(&g);
            ensure!(g == Some(m.s[i]), "{who}: get({i}) = {:?}, expected Some({})", g, m.s[i]);
        }
    }
    for &i in &pos {
        note("get", i as u128, 0, 0);
        let g = t.get(i);
        let exp = m.s.get(i).copied();
        ctx.q();
        ctx.absorb(&g);
        ensure!(g == exp, "{who}: get({i}) = {:?}, expected {:?} (n = {n})", g, exp);
        if o.unchecked && i < n {
            note("get_unchecked", i as u128, 0, 0);
            let u = unsafe { t.get_unchecked(i) };
            ctx.q();
            ensure!(Some(u) == g, "{who}: get_unchecked({i}) = {u}, checked get = {:?}", g);
        }
    }

    // ---- get, every ordered pair of distinct symbols in direct succession (an answer must not
    // depend on the query before it). d^2 calls: for at most 140 distinct symbols, on every
    // input of a million symbols or more and on one input in eight otherwise.
    let d = m.pos.len();
    if d >= 2 && d <= 140 && (n >= 1_000_000 || plan_seed % 8 == 5) {
        let reps: Vec<(u128, usize)> = m.pos.iter().map(|(&c, pl)| (c, pl[(plan_seed as usize) % pl.len()])).collect();
        ctx.label("get-pair-sweep");
        for &(ca, pa) in &reps {
            for &(cb, pb) in &reps {
                note("get", pa as u128, 0, 0);
                let ga = t.get(pa);
                note("get", pb as u128, 0, 0);
                let gb = t.get(pb);
                ctx.queries += 2;
                ensure!(ga == Some(ca) && gb == Some(cb), "{who}: get({pa}) then get({pb}) = {:?}, {:?}, expected Some({ca}), Some({cb}) (n = {n})", ga, gb);
            }
        }
    }

    // ---- rank / rank_prefetch
    let syms = symbols(m, ty, &mut rng, 24);
    let full = n <= 400 && syms.len() <= 40;
    for &c in &syms {
        let ps: Vec<usize> = if full {
            pos.clone()
        } else {
            let mut v: Vec<usize> = vec![0, n.saturating_sub(1), n, n + 1, usize::MAX];
            for _ in 0..o.budget {
                v.push(pos[rng.below_usize(pos.len())]);
            }
            let w = crate::util::wrap_positions(n);
            for _ in 0..3 {
                v.push(w[rng.below_usize(w.len())]);
            }
            // positions right at and after an occurrence of c
            if let Some(pl) = m.pos.get(&c) {
                for _ in 0..(o.budget / 4).max(2) {
                    let p = pl[rng.below_usize(pl.len())];
                    v.push(p);
                    v.push(p + 1);
                }
                v.push(pl[0]);
                v.push(*pl.last().unwrap() + 1);
            }
            v.sort_unstable();
            v.dedup();
            v
        };
        for &i in &ps {
            let exp = expect_rank(kind, m, c, i);
            note("rank", c, i as u128, 0);
            let r = t.rank(c, i);
            ctx.q();
            ctx.absorb(&r);
            ensure!(
                exp.admits(r),
                "{who}: rank({c}, {i}) = {:?}, expected {:?} (n = {n}, max = {:?}, occurrences of symbol = {})",
                r, exp, m.max(), m.count(c)
            );
            if o.prefetch {
                note("rank_prefetch", c, i as u128, 0);
                if let Some(rp) = t.rank_prefetch(c, i) {
                    ctx.q();
                    ctx.absorb(&rp);
                    ensure!(
                        exp.admits(rp) && (rp == r || n == 0),
                        "{who}: rank_prefetch({c}, {i}) = {:?} but rank = {:?}, expected {:?}",
                        rp, r, exp
                    );
                }
            }
            if o.unchecked {
                if let (Exp::Exact(Some(v)), true) = (exp, n > 0) {
                    note("rank_unchecked", c, i as u128, 0);
                    let u = unsafe { t.rank_unchecked(c, i) };
                    ctx.q();
                    ensure!(u == v, "{who}: rank_unchecked({c}, {i}) = {u}, checked rank = Some({v})");
                    note("rank_prefetch_unchecked", c, i as u128, 0);
                    if let Some(u) = unsafe { t.rank_prefetch_unchecked(c, i) } {
                        ctx.q();
                        ensure!(u == v, "{who}: rank_prefetch_unchecked({c}, {i}) = {u}, checked rank = Some({v})");
                    }
                }
            }
        }
    }

    // ---- select
    for &c in &syms {
        let cnt = m.count(c);
        let ks = occurrence_indices(cnt, &mut rng, o.budget);
        for &k in &ks {
            let exp = expect_select(kind, m, c, k);
            note("select", c, k as u128, 0);
            let s = t.select(c, k);
            ctx.q();
            ctx.absorb(&s);
            ensure!(
                s == exp,
                "{who}: select({c}, {k}) = {:?}, expected {:?} (n = {n}, max = {:?}, occurrences = {cnt})",
                s, exp, m.max()
            );
            if o.unchecked {
                if let Some(v) = exp {
                    note("select_unchecked", c, k as u128, 0);
                    let u = unsafe { t.select_unchecked(c, k) };
                    ctx.q();
                    ensure!(u == v, "{who}: select_unchecked({c}, {k}) = {u}, checked select = Some({v})");
                }
            }
        }
    }
    let _ = fail_unreachable;
    Ok(())
}

#[allow(dead_code)]
fn fail_unreachable() -> CheckResult {
    fail!("unreachable")
}

/// Labels describing the shape of a sequence case (for evidence histograms).
pub fn label_seq(m: &SeqModel, kind: TreeKind, ty: ElemTy, ctx: &mut Ctx) {
    let n = m.n();
    let lc = match n {
        0 => "n=0",
        1 => "n=1",
        2..=16 => "n=2..16",
        17..=300 => "n=17..300",
        301..=5000 => "n=301..5000",
        5001..=70000 => "n=5001..70000",
        _ => "n>70000",
    };
    ctx.label(lc);
    ctx.label(&format!("kind={}", kind.name()));
    ctx.label(&format!("ty={}", ty.name()));
    let d = m.distinct();
    ctx.label(match d {
        0 => "d=0",
        1 => "d=1",
        2 => "d=2",
        3..=16 => "d=3..16",
        _ => "d>16",
    });
    if let Some(mx) = m.max() {
        if mx >= 1u128 << 64 {
            ctx.label("max>=2^64");
        } else if mx >= 1u128 << 32 {
            ctx.label("max>=2^32");
        }
        if mx == ty.max() {
            ctx.label("max=T::MAX");
        }
    }
    if m.pos.values().any(|p| p.len() > 8192) {
        ctx.label("symbol>8192occ");
    }
    if n > 0 && n % 256 == 0 {
        ctx.label("n%256==0");
    }
    if n > 4096 {
        ctx.label("multi-superblock");
    }
}
