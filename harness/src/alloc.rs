//! Counting global allocator: live bytes requested (Layout::size), used by C14-C16.
use std::alloc::{GlobalAlloc, Layout, System};
use std::sync::atomic::{AtomicUsize, Ordering};

pub struct Counting;

pub static LIVE: AtomicUsize = AtomicUsize::new(0);
pub static INSTALLED: AtomicUsize = AtomicUsize::new(0);

unsafe impl GlobalAlloc for Counting {
    unsafe fn alloc(&self, l: Layout) -> *mut u8 {
        let p = System.alloc(l);
        if !p.is_null() {
            LIVE.fetch_add(l.size(), Ordering::Relaxed);
            INSTALLED.store(1, Ordering::Relaxed);
        }
        p
    }
    unsafe fn dealloc(&self, p: *mut u8, l: Layout) {
        System.dealloc(p, l);
        LIVE.fetch_sub(l.size(), Ordering::Relaxed);
    }
    unsafe fn alloc_zeroed(&self, l: Layout) -> *mut u8 {
        let p = System.alloc_zeroed(l);
        if !p.is_null() {
            LIVE.fetch_add(l.size(), Ordering::Relaxed);
            INSTALLED.store(1, Ordering::Relaxed);
        }
        p
    }
    unsafe fn realloc(&self, p: *mut u8, l: Layout, new_size: usize) -> *mut u8 {
        let q = System.realloc(p, l, new_size);
        if !q.is_null() {
            LIVE.fetch_add(new_size, Ordering::Relaxed);
            LIVE.fetch_sub(l.size(), Ordering::Relaxed);
        }
        q
    }
}

pub fn live() -> usize {
    LIVE.load(Ordering::Relaxed)
}

/// true when the counting allocator is the process's global allocator
pub fn installed() -> bool {
    let _b = Box::new(0u8);
    INSTALLED.load(Ordering::Relaxed) == 1
}
