//! Reference models: plain vectors plus position lists. Shares no code with qwt.
use std::collections::BTreeMap;

#[derive(Clone, Debug)]
pub struct SeqModel {
    pub s: Vec<u128>,
    pub pos: BTreeMap<u128, Vec<usize>>,
}

impl SeqModel {
    pub fn new(s: Vec<u128>) -> Self {
        let mut pos: BTreeMap<u128, Vec<usize>> = BTreeMap::new();
        for (i, &c) in s.iter().enumerate() {
            pos.entry(c).or_default().push(i);
        }
        SeqModel { s, pos }
    }
    pub fn n(&self) -> usize {
        self.s.len()
    }
    pub fn max(&self) -> Option<u128> {
        self.pos.keys().next_back().copied()
    }
    pub fn count(&self, c: u128) -> usize {
        self.pos.get(&c).map_or(0, |v| v.len())
    }
    pub fn occurs(&self, c: u128) -> bool {
        self.pos.contains_key(&c)
    }
    /// occurrences of c in s[0..i), i may exceed n (then counts all)
    pub fn rank(&self, c: u128, i: usize) -> usize {
        self.pos.get(&c).map_or(0, |v| v.partition_point(|&p| p < i))
    }
    pub fn select(&self, c: u128, k: usize) -> Option<usize> {
        self.pos.get(&c).and_then(|v| v.get(k).copied())
    }
    pub fn distinct(&self) -> usize {
        self.pos.len()
    }
    /// zero-order empirical entropy in bits per symbol
    pub fn h0(&self) -> f64 {
        let n = self.n() as f64;
        if self.n() == 0 {
            return 0.0;
        }
        self.pos
            .values()
            .map(|v| {
                let p = v.len() as f64 / n;
                -p * p.log2()
            })
            .sum()
    }
}

#[derive(Clone, Debug)]
pub struct BitModel {
    pub b: Vec<bool>,
    pub ones: Vec<usize>,
    pub zeros: Vec<usize>,
}

impl BitModel {
    pub fn new(b: Vec<bool>) -> Self {
        let mut ones = Vec::new();
        let mut zeros = Vec::new();
        for (i, &x) in b.iter().enumerate() {
            if x {
                ones.push(i)
            } else {
                zeros.push(i)
            }
        }
        BitModel { b, ones, zeros }
    }
    pub fn n(&self) -> usize {
        self.b.len()
    }
    pub fn rank1(&self, i: usize) -> usize {
        self.ones.partition_point(|&p| p < i)
    }
    pub fn rank0(&self, i: usize) -> usize {
        self.zeros.partition_point(|&p| p < i)
    }
    /// value of bits [start, start+len) little-endian, None when out of range / bad len
    pub fn get_bits(&self, start: usize, len: usize) -> Option<u64> {
        if len == 0 || len > 64 {
            return None;
        }
        let end = start.checked_add(len)?;
        if end > self.n() {
            return None;
        }
        let mut r = 0u64;
        for j in 0..len {
            if self.b[start + j] {
                r |= 1u64 << j;
            }
        }
        Some(r)
    }
    /// 64-bit word w with zero padding; None if w is beyond the last (partial) word
    pub fn word(&self, w: usize) -> Option<u64> {
        let start = w.checked_mul(64)?;
        if start >= self.n() {
            return None;
        }
        let mut r = 0u64;
        for j in 0..64 {
            if start + j < self.n() && self.b[start + j] {
                r |= 1u64 << j;
            }
        }
        Some(r)
    }
}

#[derive(Clone, Debug)]
pub struct QuadModel {
    pub q: Vec<u8>,
    pub pos: [Vec<usize>; 4],
}

impl QuadModel {
    pub fn new(q: Vec<u8>) -> Self {
        let mut pos: [Vec<usize>; 4] = Default::default();
        for (i, &c) in q.iter().enumerate() {
            pos[(c & 3) as usize].push(i);
        }
        QuadModel { q, pos }
    }
    pub fn n(&self) -> usize {
        self.q.len()
    }
    pub fn rank(&self, s: u8, i: usize) -> usize {
        self.pos[s as usize].partition_point(|&p| p < i)
    }
    pub fn occs(&self, s: u8) -> usize {
        self.pos[s as usize].len()
    }
    pub fn occs_smaller(&self, s: u8) -> usize {
        (0..s).map(|c| self.pos[c as usize].len()).sum()
    }
}

/// Code lengths (in k-ary digits) of a textbook k-ary Huffman code for the given counts
/// (dummy symbols of weight 0 pad the alphabet so that every merge takes k nodes).
/// Independent of the `minimum_redundancy` crate that qwt uses. One symbol gets length 1.
pub fn huffman_lengths(counts: &[u64], k: usize) -> Vec<u32> {
    use std::cmp::Reverse;
    use std::collections::BinaryHeap;
    let d = counts.len();
    if d == 0 {
        return vec![];
    }
    if d == 1 {
        return vec![1];
    }
    // node arena: (weight, children)
    let mut parent: Vec<usize> = vec![usize::MAX; d];
    let mut heap: BinaryHeap<Reverse<(u64, usize)>> = BinaryHeap::new();
    for (i, &c) in counts.iter().enumerate() {
        heap.push(Reverse((c, i)));
    }
    let mut dummies = 0;
    if k > 2 {
        while (d + dummies - 1) % (k - 1) != 0 {
            dummies += 1;
        }
    }
    for _ in 0..dummies {
        let id = parent.len();
        parent.push(usize::MAX);
        heap.push(Reverse((0, id)));
    }
    while heap.len() > 1 {
        let mut w = 0;
        let id = parent.len();
        parent.push(usize::MAX);
        for _ in 0..k {
            if let Some(Reverse((cw, c))) = heap.pop() {
                w += cw;
                parent[c] = id;
            }
        }
        heap.push(Reverse((w, id)));
    }
    (0..d)
        .map(|i| {
            let mut l = 0;
            let mut x = i;
            while parent[x] != usize::MAX {
                x = parent[x];
                l += 1;
            }
            l
        })
        .collect()
}
