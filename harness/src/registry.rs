//! Table of properties; `with_prop!` dispatches a generic closure-like block on the id.
use crate::props::seqexact::SeqExact;
use crate::bits::BitsKind;
use crate::props::bitsprops::BitsProp;
use crate::trees::TreeKind;
pub use crate::props::quadprops::{C05, C13};
pub use crate::props::c08::C08;
pub use crate::props::c17::C17;
pub use crate::props::space::{C14, C15, C16};
pub use crate::props::c04::C04;
pub use crate::props::c18::C18;
pub use crate::props::c19::C19;
pub use crate::props::c12::C12;
pub use crate::props::derived::{C10, C11};

pub const C01: SeqExact = SeqExact { id: "C01", kinds: &TreeKind::QUAD_PLAIN };
pub const C02: SeqExact = SeqExact { id: "C02", kinds: &TreeKind::QUAD_HUFF };
pub const C09: SeqExact = SeqExact { id: "C09", kinds: &TreeKind::QUAD_ALL };
pub const C03: SeqExact = SeqExact { id: "C03", kinds: &TreeKind::BINARY };

pub const C06: BitsProp = BitsProp { id: "C06", kinds: &[BitsKind::Narrow, BitsKind::Wide] };
pub const C07: BitsProp = BitsProp { id: "C07", kinds: &[BitsKind::Da0, BitsKind::Da1] };

#[macro_export]
macro_rules! with_prop {
    ($id:expr, $p:ident => $body:expr) => {
        match $id {
            "C01" => { let $p = &$crate::registry::C01; $body }
            "C02" => { let $p = &$crate::registry::C02; $body }
            "C03" => { let $p = &$crate::registry::C03; $body }
            "C06" => { let $p = &$crate::registry::C06; $body }
            "C07" => { let $p = &$crate::registry::C07; $body }
            "C05" => { let $p = &$crate::registry::C05; $body }
            "C13" => { let $p = &$crate::registry::C13; $body }
            "C08" => { let $p = &$crate::registry::C08; $body }
            "C17" => { let $p = &$crate::registry::C17; $body }
            "C09" => { let $p = &$crate::registry::C09; $body }
            "C10" => { let $p = &$crate::registry::C10; $body }
            "C11" => { let $p = &$crate::registry::C11; $body }
            "C12" => { let $p = &$crate::registry::C12; $body }
            "C19" => { let $p = &$crate::registry::C19; $body }
            "C18" => { let $p = &$crate::registry::C18; $body }
            "C04" => { let $p = &$crate::registry::C04; $body }
            "C14" => { let $p = &$crate::registry::C14; $body }
            "C15" => { let $p = &$crate::registry::C15; $body }
            "C16" => { let $p = &$crate::registry::C16; $body }
            other => {
                eprintln!("unknown property {other}");
                std::process::exit(2);
            }
        }
    };
}
