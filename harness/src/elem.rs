//! Element types of the wavelet trees, unified through u128.
use num_traits::AsPrimitive;
use qwt::WTIndexable;
use serde::{de::DeserializeOwned, Deserialize, Serialize};

pub trait Elem:
    WTIndexable
    + Serialize
    + DeserializeOwned
    + std::fmt::Debug
    + Send
    + Sync
    + Copy
    + std::hash::Hash
    + Default
    + 'static
{
    const BITS: u32;
    const TY: ElemTy;
    fn from_u128(v: u128) -> Self;
    fn to_u128(self) -> u128;
}

macro_rules! impl_elem {
    ($($t:ty => $v:ident),*) => {$(
        impl Elem for $t {
            const BITS: u32 = <$t>::BITS;
            const TY: ElemTy = ElemTy::$v;
            #[inline] fn from_u128(v: u128) -> Self { v as $t }
            #[inline] fn to_u128(self) -> u128 { self as u128 }
        }
    )*};
}
impl_elem!(u8 => U8, u16 => U16, u32 => U32, u64 => U64, usize => Usize, u128 => U128);

#[derive(Clone, Copy, Debug, PartialEq, Eq, Hash, Serialize, Deserialize, PartialOrd, Ord)]
pub enum ElemTy {
    U8,
    U16,
    U32,
    U64,
    Usize,
    U128,
}

impl ElemTy {
    pub const ALL: [ElemTy; 6] = [
        ElemTy::U8,
        ElemTy::U16,
        ElemTy::U32,
        ElemTy::U64,
        ElemTy::Usize,
        ElemTy::U128,
    ];
    pub fn bits(self) -> u32 {
        match self {
            ElemTy::U8 => 8,
            ElemTy::U16 => 16,
            ElemTy::U32 => 32,
            ElemTy::U64 | ElemTy::Usize => 64,
            ElemTy::U128 => 128,
        }
    }
    pub fn max(self) -> u128 {
        if self.bits() == 128 {
            u128::MAX
        } else {
            (1u128 << self.bits()) - 1
        }
    }
    pub fn name(self) -> &'static str {
        match self {
            ElemTy::U8 => "u8",
            ElemTy::U16 => "u16",
            ElemTy::U32 => "u32",
            ElemTy::U64 => "u64",
            ElemTy::Usize => "usize",
            ElemTy::U128 => "u128",
        }
    }
}

/// helper used in where clauses: `usize: AsPrimitive<T>`
pub trait UsizeAs<T: 'static + Copy>: AsPrimitive<T> {}
impl<T: 'static + Copy> UsizeAs<T> for usize where usize: AsPrimitive<T> {}
