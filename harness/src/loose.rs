//! Iterators whose `size_hint` is legal but not exact. `collect` / `extend` implementations that
//! pre-size their storage from the hint are only exercised by such sources (`filter`,
//! `filter_map`, `flat_map`, `take_while`, `from_fn`, ... in user code); a `Vec` or slice iterator
//! always reports the exact length.

/// Reports `lower <= remaining <= upper` according to `mode`; yields exactly the inner items.
pub struct Loose<I> {
    inner: I,
    remaining: usize,
    consumed: usize,
    mode: u8,
}

pub const SLACKS: [usize; 8] = [1, 63, 64, 255, 300, 512, 1000, 70_000];

impl<I: Iterator> Iterator for Loose<I> {
    type Item = I::Item;
    fn next(&mut self) -> Option<I::Item> {
        let x = self.inner.next();
        if x.is_some() {
            self.remaining -= 1;
            self.consumed += 1;
        }
        x
    }
    fn size_hint(&self) -> (usize, Option<usize>) {
        let r = self.remaining;
        let slack = SLACKS[(self.mode / 8) as usize % SLACKS.len()];
        match self.mode % 8 {
            0 => (0, None),                                         // from_fn, take_while on an open source
            1 => (0, Some(r + slack)),                              // filter: upper over-estimates
            2 => (r / 2, Some(r * 2 + slack)),
            3 => (r.saturating_sub(slack), None),
            4 => (r, None),                                         // chain with an open tail
            5 => (if self.consumed >= slack { r } else { 0 }, Some(r + slack)), // lower bound appears while consumed (flatten)
            6 => (r, Some(r + slack)),                              // exact lower, loose upper
            _ => (r.min(slack), Some(r)),                           // capped lower, exact upper
        }
    }
}

/// The items of `v` behind a loose size hint. Modes 0..64 use `Loose`; 64.. use std adapters
/// (`filter_map` over interleaved junk, `flat_map` over chunks, `from_fn`, `take_while`) and, for
/// 224.., an iterator that is not fused.
pub fn loose_iter<T: Clone + 'static>(v: Vec<T>, mode: u8) -> Box<dyn Iterator<Item = T>> {
    let n = v.len();
    match mode {
        0..=63 => Box::new(Loose { inner: v.into_iter(), remaining: n, consumed: 0, mode }),
        64..=95 => {
            // junk interleaved every k items and a block of junk at the end, removed by filter_map
            let k = [1usize, 2, 7, 64, 255, 256, 1000, 4096][(mode as usize - 64) % 8];
            let tail = SLACKS[(mode as usize - 64) / 8 % SLACKS.len()];
            let mut o: Vec<Option<T>> = Vec::with_capacity(n + n / k + tail + 1);
            for (i, x) in v.into_iter().enumerate() {
                if i % k == 0 {
                    o.push(None);
                }
                o.push(Some(x));
            }
            for _ in 0..tail {
                o.push(None);
            }
            Box::new(o.into_iter().filter_map(|x| x))
        }
        96..=127 => {
            let c = [1usize, 3, 64, 128, 256, 257, 512, 100_000][(mode as usize - 96) % 8];
            let chunks: Vec<Vec<T>> = v.chunks(c).map(|ch| ch.to_vec()).collect();
            Box::new(chunks.into_iter().flat_map(|ch| ch.into_iter()))
        }
        128..=191 => {
            let mut it = v.into_iter();
            Box::new(std::iter::from_fn(move || it.next()))
        }
        224..=255 => {
            // not fused: after its first `None` the iterator would hand out more items (a batch
            // source such as `mpsc::Receiver::try_iter`). `collect` / `extend` must stop at the first
            // `None` like every std collection does; what comes after belongs to the next batch.
            let junk: Vec<T> = v.iter().take(300).cloned().collect();
            Box::new(Resumable { items: v.into_iter(), ended: false, junk, next_junk: 0 })
        }
        _ => {
            let mut left = n;
            Box::new(v.into_iter().take_while(move |_| {
                let go = left > 0;
                left = left.saturating_sub(1);
                go
            }))
        }
    }
}

/// Yields its items, then `None` once, then (if polled again) up to 300 further items.
pub struct Resumable<T> {
    items: std::vec::IntoIter<T>,
    ended: bool,
    junk: Vec<T>,
    next_junk: usize,
}

impl<T: Clone> Iterator for Resumable<T> {
    type Item = T;
    fn next(&mut self) -> Option<T> {
        if !self.ended {
            let x = self.items.next();
            if x.is_none() {
                self.ended = true;
            }
            return x;
        }
        let x = self.junk.get(self.next_junk).cloned();
        self.next_junk += 1;
        x
    }
}

/// Splits `v` into pseudo-random pieces (sizes around block borders) for multi-step `extend`s.
pub fn pieces<T: Clone>(v: &[T], seed: u64) -> Vec<Vec<T>> {
    let mut r = crate::util::Rng::new(seed);
    let mut out = Vec::new();
    let mut i = 0;
    while i < v.len() {
        let base = [1usize, 7, 64, 128, 255, 256, 257, 384, 512, 1000, 4096, 70_000][r.below_usize(12)];
        let len = (base + r.below_usize(3)).saturating_sub(1).clamp(1, v.len() - i);
        out.push(v[i..i + len].to_vec());
        i += len;
    }
    out
}
