//! Comparison of the bit-vector structures with the bit model.
use crate::bits::{BitsKind, BitsVal};
use crate::model::BitModel;
use crate::runner::{CheckResult, Ctx};
use crate::util::{note, Rng};
use crate::{ensure, fail};

#[derive(Clone, Copy, Debug)]
pub struct BitOpts {
    pub unchecked: bool,
    pub budget: usize,
    /// compare every select answer when the count is at most this
    pub full_select_upto: usize,
    /// run the iterator comparisons (O(n))
    pub iterators: bool,
    /// multi-bit and word reads (BitVector / BitVectorMut)
    pub words: bool,
}

impl Default for BitOpts {
    fn default() -> Self {
        BitOpts { unchecked: false, budget: 60, full_select_upto: 9000, iterators: true, words: true }
    }
}

pub fn bit_positions(n: usize, rng: &mut Rng, budget: usize) -> Vec<usize> {
    let mut v = Vec::new();
    if n <= 700 {
        v.extend(0..=n + 1);
    } else {
        v.extend([0, 1, n - 1, n, n + 1]);
        for p in [64usize, 512, 4096, 32768] {
            let last = n / p * p;
            for b in [p, 2 * p, last] {
                if b > 0 && b <= n + 1 {
                    v.extend([b - 1, b, b + 1]);
                }
            }
            for _ in 0..4 {
                let b = rng.below_usize(n / p + 1) * p;
                if b > 0 {
                    v.extend([b - 1, b, b + 1]);
                }
            }
        }
        for _ in 0..budget {
            v.push(rng.below_usize(n + 1));
        }
    }
    v.extend([n + 2, 1usize << 32, 1usize << 43, usize::MAX - 1, usize::MAX]);
    v.extend(crate::util::wrap_positions(n));
    v.sort_unstable();
    v.dedup();
    v
}

pub fn select_indices(count: usize, period: usize, rng: &mut Rng, o: &BitOpts) -> Vec<usize> {
    let mut v = Vec::new();
    if count <= o.full_select_upto {
        v.extend(0..count);
    } else {
        v.extend([0, 1, count - 1]);
        let mut k = period;
        let mut c = 0;
        while k < count && c < 40 {
            v.extend([k - 1, k, k + 1]);
            k += period * (count / period / 30).max(1);
            c += 1;
        }
        let lastm = count / period * period;
        if lastm > 0 {
            v.extend([lastm - 1, lastm, lastm + 1]);
        }
        // runs of consecutive indices (cross 32-one sub-blocks and 1024-one blocks)
        for _ in 0..6 {
            let s = rng.below_usize(count);
            v.extend(s..(s + 70).min(count));
        }
        for _ in 0..o.budget * 4 {
            v.push(rng.below_usize(count));
        }
    }
    v.retain(|&k| k < count);
    v.extend([count, count + 1, usize::MAX - 1, usize::MAX]);
    v.sort_unstable();
    v.dedup();
    v
}

pub fn check_bits(v: &BitsVal, m: &BitModel, plan_seed: u64, o: BitOpts, ctx: &mut Ctx) -> CheckResult {
    let kind = v.kind();
    let who = kind.name();
    let n = m.n();
    let mut rng = Rng::new(plan_seed);

    if let Some(l) = v.len() {
        ctx.q();
        ctx.absorb(&l);
        ensure!(l == n, "{who}: len = {l}, expected {n}");
    }
    if let Some(e) = v.is_empty() {
        ctx.q();
        ensure!(e == (n == 0), "{who}: is_empty = {e}, n = {n}");
    }
    // totals. RSNarrow/RSWide on the empty vector: covered by C06 ("exact totals", 0 and 0)
    note("n_ones", 0, 0, 0);
    let o1 = v.n_ones();
    ctx.q();
    ctx.absorb(&o1);
    ensure!(o1 == m.ones.len(), "{who}: number of ones = {o1}, expected {}", m.ones.len());
    note("n_zeros", 0, 0, 0);
    let z1 = v.n_zeros();
    ctx.q();
    ensure!(z1 == m.zeros.len(), "{who}: number of zeros = {z1}, expected {}", m.zeros.len());
    if let Some(z) = v.trait_n_zeros() {
        ensure!(z == m.zeros.len(), "{who}: RankBin::n_zeros = {z}, expected {}", m.zeros.len());
    }

    let pos = bit_positions(n, &mut rng, o.budget * 3);
    for &i in &pos {
        note("get", i as u128, 0, 0);
        let g = v.get(i);
        let e = m.b.get(i).copied();
        ctx.q();
        ctx.absorb(&g);
        ensure!(g == e, "{who}: get({i}) = {:?}, expected {:?} (n = {n})", g, e);
        if o.unchecked && i < n {
            note("get_unchecked", i as u128, 0, 0);
            let u = unsafe { v.get_unchecked(i) };
            ensure!(Some(u) == g, "{who}: get_unchecked({i}) = {u}, get = {:?}", g);
        }
        if kind.has_rank() {
            note("rank1", i as u128, 0, 0);
            let r1 = v.rank1(i).unwrap();
            note("rank0", i as u128, 0, 0);
            let r0 = v.rank0(i).unwrap();
            ctx.q();
            ctx.q();
            ctx.absorb(&(r1, r0));
            if i > n {
                ensure!(r1.is_none(), "{who}: rank1({i}) = {:?}, expected None (n = {n})", r1);
                ensure!(r0.is_none(), "{who}: rank0({i}) = {:?}, expected None (n = {n})", r0);
            } else if n == 0 {
                // empty: "no position, no non-zero count": None or Some(0)
                ensure!(r1.is_none() || r1 == Some(0), "{who}: rank1(0) on empty = {:?}", r1);
                ensure!(r0.is_none() || r0 == Some(0), "{who}: rank0(0) on empty = {:?}", r0);
            } else {
                ensure!(r1 == Some(m.rank1(i)), "{who}: rank1({i}) = {:?}, expected Some({}) (n = {n})", r1, m.rank1(i));
                ensure!(r0 == Some(m.rank0(i)), "{who}: rank0({i}) = {:?}, expected Some({}) (n = {n})", r0, m.rank0(i));
                if o.unchecked {
                    note("rank1_unchecked", i as u128, 0, 0);
                    let u1 = unsafe { v.rank1_unchecked(i) }.unwrap();
                    note("rank0_unchecked", i as u128, 0, 0);
                    let u0 = unsafe { v.rank0_unchecked(i) }.unwrap();
                    ctx.q();
                    ensure!(Some(u1) == r1, "{who}: rank1_unchecked({i}) = {u1}, rank1 = {:?}", r1);
                    ensure!(Some(u0) == r0, "{who}: rank0_unchecked({i}) = {u0}, rank0 = {:?}", r0);
                }
            }
        }
    }

    if kind.has_select() {
        let period = match kind {
            BitsKind::Narrow => 1024,
            BitsKind::Wide => 8192,
            _ => 1024,
        };
        // select1 and select0 queries are interleaved in a pseudo-random order (a structure that
        // keeps hidden state between queries must not depend on which kind came before)
        let mut qs: Vec<(bool, usize)> = select_indices(m.ones.len(), period, &mut rng, &o).into_iter().map(|k| (true, k)).collect();
        if kind != BitsKind::Da0 {
            qs.extend(select_indices(m.zeros.len(), period, &mut rng, &o).into_iter().map(|k| (false, k)));
        }
        if plan_seed & 3 != 0 {
            rng.shuffle(&mut qs);
        }
        for &(one, k) in &qs {
            if one {
                note("select1", k as u128, 0, 0);
                let s = v.select1(k).unwrap();
                let e = m.ones.get(k).copied();
                ctx.q();
                ctx.absorb(&s);
                ensure!(s == e, "{who}: select1({k}) = {:?}, expected {:?} (n = {n}, ones = {})", s, e, m.ones.len());
                if o.unchecked && e.is_some() {
                    note("select1_unchecked", k as u128, 0, 0);
                    let u = unsafe { v.select1_unchecked(k) }.unwrap();
                    ctx.q();
                    ensure!(Some(u) == e, "{who}: select1_unchecked({k}) = {u}, select1 = {:?}", s);
                }
            } else {
                note("select0", k as u128, 0, 0);
                let s = v.select0(k).unwrap();
                let e = m.zeros.get(k).copied();
                ctx.q();
                ctx.absorb(&s);
                ensure!(s == e, "{who}: select0({k}) = {:?}, expected {:?} (n = {n}, zeros = {})", s, e, m.zeros.len());
                if o.unchecked && e.is_some() {
                    note("select0_unchecked", k as u128, 0, 0);
                    let u = unsafe { v.select0_unchecked(k) }.unwrap();
                    ctx.q();
                    ensure!(Some(u) == e, "{who}: select0_unchecked({k}) = {u}, select0 = {:?}", s);
                }
            }
        }
    }

    if o.iterators {
        check_bit_iterators(v, m, &mut rng, o, ctx)?;
    }
    if o.words && matches!(kind, BitsKind::Bv | BitsKind::Bvm) {
        check_words(v, m, &mut rng, o, ctx)?;
    }
    let _ = unreachable_fail;
    Ok(())
}

#[allow(dead_code)]
fn unreachable_fail() -> CheckResult {
    fail!("unreachable")
}

fn take_all(it: Box<dyn Iterator<Item = usize> + '_>, cap: usize) -> (Vec<usize>, bool) {
    // collects at most cap+8 items, then probes fusedness
    let mut it = it;
    let mut v = Vec::new();
    let mut ended = false;
    for _ in 0..cap + 8 {
        match it.next() {
            Some(x) => v.push(x),
            None => {
                ended = true;
                break;
            }
        }
    }
    let mut fused = true;
    if ended {
        for _ in 0..10 {
            if it.next().is_some() {
                fused = false;
            }
        }
    }
    (v, ended && fused)
}

pub fn check_bit_iterators(v: &BitsVal, m: &BitModel, rng: &mut Rng, o: BitOpts, ctx: &mut Ctx) -> CheckResult {
    let who = v.kind().name();
    let n = m.n();
    if let Some(mut it) = v.iter() {
        note("iter", 0, 0, 0);
        ensure!(it.len() == n, "{who}: iter().len() = {}, expected {n}", it.len());
        for i in 0..n {
            let x = it.next();
            ensure!(x == Some(m.b[i]), "{who}: iter() item {i} = {:?}, expected {}", x, m.b[i]);
            if i % 997 == 0 {
                ensure!(it.len() == n - i - 1, "{who}: iter().len() after {} items = {}", i + 1, it.len());
            }
        }
        ctx.queries += n as u64;
        for _ in 0..5 {
            ensure!(it.next().is_none(), "{who}: iter() yields an item after the end");
            ensure!(it.len() == 0, "{who}: iter().len() = {} after exhaustion", it.len());
        }
    }
    if let Some(it) = v.ones() {
        note("ones", 0, 0, 0);
        let (got, ok) = take_all(it, m.ones.len());
        ctx.queries += got.len() as u64;
        ensure!(got == m.ones, "{who}: ones() differs from the model: first difference at index {:?} (got {} items, expected {})",
            got.iter().zip(m.ones.iter()).position(|(a, b)| a != b), got.len(), m.ones.len());
        ensure!(ok, "{who}: ones() does not stay exhausted");
    }
    if let Some(it) = v.zeros() {
        note("zeros", 0, 0, 0);
        let (got, ok) = take_all(it, m.zeros.len());
        ctx.queries += got.len() as u64;
        ensure!(got == m.zeros, "{who}: zeros() differs from the model: first difference at index {:?} (got {} items, expected {})",
            got.iter().zip(m.zeros.iter()).position(|(a, b)| a != b), got.len(), m.zeros.len());
        ensure!(ok, "{who}: zeros() does not stay exhausted");
    }
    // provided iterator methods on the concrete iterator types
    if n <= 6_000 || (n <= 60_000 && rng.below(8) == 0) {
        let seed = rng.next_u64();
        v.check_iter_adapters(m, seed, ctx)?;
    }
    if v.ones().is_some() {
        let mut starts: Vec<usize> = if n <= 300 { (0..=n + 2).collect() } else { vec![0, 1, 63, 64, 65, n - 1, n, n + 1, n + 2, n + 64, n + 600] };
        if n > 300 {
            for _ in 0..o.budget / 4 {
                starts.push(rng.below_usize(n + 1));
                starts.push((rng.below_usize(n / 64 + 1)) * 64);
            }
        }
        starts.extend([usize::MAX, usize::MAX - 63, 1 << 40]);
        for p in starts {
            // at most 200 items are compared per start
            let cap = 200;
            note("ones_with_pos", p as u128, 0, 0);
            let from = m.ones.partition_point(|&x| x < p);
            let exp: Vec<usize> = m.ones[from..].iter().copied().take(cap).collect();
            let got: Vec<usize> = v.ones_with_pos(p).unwrap().take(cap).collect();
            ctx.q();
            ensure!(got == exp, "{who}: ones_with_pos({p}) starts with {:?}, expected {:?} (n = {n})", &got[..got.len().min(5)], &exp[..exp.len().min(5)]);
            note("zeros_with_pos", p as u128, 0, 0);
            let from = m.zeros.partition_point(|&x| x < p);
            let exp: Vec<usize> = m.zeros[from..].iter().copied().take(cap).collect();
            let got: Vec<usize> = v.zeros_with_pos(p).unwrap().take(cap).collect();
            ctx.q();
            ensure!(got == exp, "{who}: zeros_with_pos({p}) starts with {:?}, expected {:?} (n = {n})", &got[..got.len().min(5)], &exp[..exp.len().min(5)]);
        }
    }
    Ok(())
}

/// get_bits / get_word of BitVector and BitVectorMut.
pub fn check_words(v: &BitsVal, m: &BitModel, rng: &mut Rng, o: BitOpts, ctx: &mut Ctx) -> CheckResult {
    let who = v.kind().name();
    let n = m.n();
    let is_mut = v.kind() == BitsKind::Bvm;
    let starts: Vec<usize> = if n <= 200 {
        (0..=n + 1).collect()
    } else {
        let mut s = vec![0, 1, 63, 64, 65, 511, 512, 513, n.saturating_sub(65), n.saturating_sub(64), n.saturating_sub(63), n - 1, n, n + 1];
        for _ in 0..o.budget {
            s.push(rng.below_usize(n + 1));
        }
        s
    };
    for &st in &starts {
        let lens: Vec<usize> = if n <= 200 || st % 7 == 0 { (0..=66).collect() } else { vec![0, 1, 2, 31, 32, 33, 63, 64, 65, 1 + rng.below_usize(64), n.saturating_sub(st), n.saturating_sub(st) + 1] };
        for &l in &lens {
            // KF-1: BitVectorMut::get_bits returns None when start + len == len(); recorded finding
            if is_mut && !ctx.strict && l >= 1 && l <= 64 && st.checked_add(l) == Some(n) {
                ctx.excluded_known += 1;
                continue;
            }
            note("get_bits", st as u128, l as u128, 0);
            let g = v.get_bits(st, l).unwrap();
            let e = m.get_bits(st, l);
            ctx.q();
            ctx.absorb(&g);
            ensure!(g == e, "{who}: get_bits({st}, {l}) = {:?}, expected {:?} (n = {n})", g, e);
            if o.unchecked {
                if let Some(ev) = e {
                    note("get_bits_unchecked", st as u128, l as u128, 0);
                    let u = unsafe { v.get_bits_unchecked(st, l) }.unwrap();
                    ctx.q();
                    ensure!(u == ev, "{who}: get_bits_unchecked({st}, {l}) = {u}, get_bits = {:?}", g);
                }
            }
        }
    }
    // arguments whose sum overflows
    for (st, l) in [(usize::MAX, 1usize), (usize::MAX - 3, 64), (usize::MAX, 64), (usize::MAX - 63, 64), (1usize << 63, 64)] {
        note("get_bits", st as u128, l as u128, 0);
        let g = v.get_bits(st, l).unwrap();
        ctx.q();
        ensure!(g.is_none(), "{who}: get_bits({st}, {l}) = {:?}, expected None", g);
    }
    let nw = (n + 63) / 64;
    let ws: Vec<usize> = if nw <= 64 { (0..nw).collect() } else { (0..40).map(|_| rng.below_usize(nw)).chain([0, nw - 1]).collect() };
    for w in ws {
        note("get_word", w as u128, 0, 0);
        let g = v.get_word(w).unwrap();
        let e = m.word(w).unwrap();
        ctx.q();
        ctx.absorb(&g);
        ensure!(g == e, "{who}: get_word({w}) = {g:#x}, expected {e:#x} (n = {n})");
    }
    Ok(())
}
