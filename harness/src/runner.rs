//! proptest driver: fixed seed, counters that stop at the first failure, replay, crash bookkeeping.
use crate::util::{catch, current_note, hash_of};
use proptest::strategy::{BoxedStrategy, Strategy, ValueTree};
use proptest::test_runner::{Config, RngSeed, TestCaseError, TestError, TestRunner};
use serde::{de::DeserializeOwned, Serialize};
use serde_json::{json, Value};
use std::cell::RefCell;
use std::collections::{BTreeMap, BTreeSet};
use std::hash::Hash;
use std::io::Write;

#[derive(Clone, Copy, Debug, PartialEq, Eq)]
pub enum Tier {
    Quick,
    Thorough,
}

#[derive(Debug, Clone)]
pub struct Failure {
    pub msg: String,
}

impl Failure {
    pub fn new(msg: impl Into<String>) -> Self {
        Failure { msg: msg.into() }
    }
}

pub type CheckResult = Result<(), Failure>;

#[macro_export]
macro_rules! fail {
    ($($arg:tt)*) => {
        return Err($crate::runner::Failure::new(format!($($arg)*)))
    };
}

#[macro_export]
macro_rules! ensure {
    ($cond:expr, $($arg:tt)*) => {
        if !($cond) {
            return Err($crate::runner::Failure::new(format!($($arg)*)));
        }
    };
}

/// Per-case statistics collector handed to the property.
#[derive(Default, Debug)]
pub struct Ctx {
    pub queries: u64,
    pub labels: BTreeMap<String, u64>,
    pub nontrivial: bool,
    pub excluded_known: u64,
    /// digest of every answer produced for this case (cross-build comparison)
    pub transcript: u64,
    /// replay / strict mode: known findings are not tolerated
    pub strict: bool,
    pub build: String,
    pub thorough: bool,
}

impl Ctx {
    pub fn label(&mut self, l: &str) {
        *self.labels.entry(l.to_string()).or_insert(0) += 1;
    }
    #[inline]
    pub fn q(&mut self) {
        self.queries += 1;
    }
    #[inline]
    pub fn absorb<T: Hash>(&mut self, v: &T) {
        self.transcript = crate::util::mix(self.transcript, hash_of(v));
    }
}

pub trait Prop {
    type Case: Serialize + DeserializeOwned + std::fmt::Debug + Clone + Hash + 'static;
    fn id(&self) -> &'static str;
    fn strategy(&self, tier: Tier, build: &str) -> BoxedStrategy<Self::Case>;
    fn run(&self, case: &Self::Case, ctx: &mut Ctx) -> CheckResult;
    fn rule(&self) -> &'static str;
    /// abbreviated rendering of a case for the evidence file
    fn sample(&self, case: &Self::Case) -> Value;
    /// cases per shard-less run (the driver divides by the number of shards)
    fn cases(&self, tier: Tier, build: &str) -> u32;
    /// builds this property runs in
    fn builds(&self, tier: Tier) -> Vec<&'static str> {
        let _ = tier;
        vec!["fast", "checked"]
    }
    /// smaller variants of a failing case, most aggressive first (post-shrink ddmin pass and
    /// crash minimisation)
    fn simplify(&self, case: &Self::Case) -> Vec<Self::Case> {
        let _ = case;
        vec![]
    }
    /// pairs of builds whose per-case answer digests must be identical
    fn transcript_pairs(&self) -> Vec<(&'static str, &'static str)> {
        vec![]
    }
    /// deterministic, enumerated cases executed (by shard 0 of every build) before the generated
    /// ones: finite sub-spaces that are covered completely
    fn fixed_cases(&self, tier: Tier) -> Vec<Self::Case> {
        let _ = tier;
        vec![]
    }
    /// whether the enumerated cases also run in the AddressSanitizer build (they are the big
    /// ones; the ASan build is a smoke tier over the generated cases unless a property opts in)
    fn fixed_in_asan(&self) -> bool {
        false
    }
    fn pre_steps(&self) -> Vec<&'static str> {
        vec![]
    }
    fn assumptions(&self) -> Vec<String> {
        vec![]
    }
}

/// offset of the enumerated cases in the case numbering shared with the driver
pub const FIXED_BASE: u64 = 1_000_000_000;

/// candidates of a delta-debugging step over a vector: remove aligned chunks, big ones first
pub fn chunk_removals<T: Clone>(v: &[T], per_size: usize) -> Vec<Vec<T>> {
    let n = v.len();
    let mut out = Vec::new();
    if n == 0 {
        return out;
    }
    let mut size = n;
    loop {
        let chunks = (n + size - 1) / size;
        let step = (chunks / per_size.max(1)).max(1);
        let mut c = 0;
        while c < chunks {
            let a = c * size;
            let b = (a + size).min(n);
            let mut w = Vec::with_capacity(n - (b - a));
            w.extend_from_slice(&v[..a]);
            w.extend_from_slice(&v[b..]);
            out.push(w);
            c += step;
        }
        if size == 1 {
            break;
        }
        size = (size + 1) / 2;
    }
    out
}

#[derive(Debug, Clone)]
pub struct RunOpts {
    pub tier: Tier,
    pub build: String,
    pub seed: u64,
    pub shard: u32,
    pub nshards: u32,
    pub cases: u32,
    pub out: String,
    pub status: Option<String>,
    /// generate (without executing) up to this index, dump that case to `dump_to`, exit
    pub dump_index: Option<u64>,
    pub dump_to: Option<String>,
}

fn runner_seed(prop: &str, o: &RunOpts) -> [u8; 32] {
    let mut s = [0u8; 32];
    let a = crate::util::mix(o.seed, crate::util::hash_str(prop));
    // the build is deliberately NOT mixed in: all builds see the same cases per shard, which is
    // what the cross-build transcript comparison (C09, C10) relies on
    let b = crate::util::mix(a, o.shard as u64);
    let mut r = crate::util::Rng::new(b);
    for ch in s.chunks_mut(8) {
        ch.copy_from_slice(&r.next_u64().to_le_bytes());
    }
    s
}

pub fn run_prop<P: Prop>(p: &P, o: &RunOpts) -> Value {
    let t0 = std::time::Instant::now();
    let seed = runner_seed(p.id(), o);
    let cfg = Config {
        cases: o.cases,
        failure_persistence: None,
        rng_seed: RngSeed::Fixed(u64::from_le_bytes(seed[..8].try_into().unwrap())),
        max_shrink_iters: 1500,
        max_shrink_time: 30_000,
        max_global_rejects: 1,
        verbose: 0,
        ..Config::default()
    };
    let mut runner = TestRunner::new(cfg);
    let strat = p.strategy(o.tier, &o.build);

    struct St {
        idx: u64,
        failed: bool,
        evaluations: u64,
        queries: u64,
        excluded_known: u64,
        labels: BTreeMap<String, u64>,
        nt_hashes: BTreeSet<u64>,
        samples: Vec<Value>,
        transcripts: Vec<u64>,
        first_failure_msg: Option<String>,
    }
    let st = RefCell::new(St {
        idx: 0,
        failed: false,
        evaluations: 0,
        queries: 0,
        excluded_known: 0,
        labels: BTreeMap::new(),
        nt_hashes: BTreeSet::new(),
        samples: vec![],
        transcripts: vec![],
        first_failure_msg: None,
    });
    let mut status_file = o
        .status
        .as_ref()
        .map(|p| std::fs::File::create(p).expect("status file"));

    // enumerated part (shard 0 only)
    let mut fixed_run = 0u64;
    let mut fixed_failure: Option<(String, String)> = None;
    // thorough tier: huge-input probes with closed-form oracles (fast build only: memory)
    let mut probes_run = 0u64;
    if o.shard == 0 && o.dump_index.is_none() && o.build == "fast" && std::env::var("QV_NO_HUGE").is_err() {
        for pr in crate::huge::probes_for(p.id()) {
            if o.tier != Tier::Thorough && !pr.quick {
                continue;
            }
            let mut ctx = Ctx { build: o.build.clone(), thorough: true, ..Ctx::default() };
            let r = catch(|| (pr.run)(&mut ctx));
            probes_run += 1;
            {
                let mut s = st.borrow_mut();
                s.evaluations += 1;
                s.queries += ctx.queries;
                *s.labels.entry(format!("huge-probe:{}", pr.name)).or_insert(0) += 1;
            }
            let m = match r {
                Ok(Ok(())) => None,
                Ok(Err(f)) => Some(f.msg),
                Err(pm) => {
                    let n = current_note();
                    Some(format!("{}panic: {pm} during {}({}, {}, {})", harness_prefix(&pm), n.op, n.a, n.b, n.c))
                }
            };
            if let Some(m) = m {
                let text = format!("{{\"property\":{},\"build\":{},\"message\":{},\"probe\":{}}}",
                    serde_json::to_string(p.id()).unwrap(), serde_json::to_string(&o.build).unwrap(),
                    serde_json::to_string(&m).unwrap(), serde_json::to_string(pr.name).unwrap());
                fixed_failure = Some((m, text));
                break;
            }
        }
    }
    // enumerated case i is known to the driver as case index FIXED_BASE + i (status file, --dump-index)
    if let Some(di) = o.dump_index {
        if di >= FIXED_BASE {
            if let Some(case) = p.fixed_cases(o.tier).into_iter().nth((di - FIXED_BASE) as usize) {
                std::fs::write(o.dump_to.as_ref().unwrap(), case_file(p.id(), &o.build, "", &case)).unwrap();
            }
            std::process::exit(0);
        }
    }
    if fixed_failure.is_none() {
    if o.shard == 0 && o.dump_index.is_none() && (o.build != "asan" || p.fixed_in_asan()) {
        for case in p.fixed_cases(o.tier) {
            if let Some(f) = status_file.as_mut() {
                use std::io::Seek;
                let _ = f.seek(std::io::SeekFrom::Start(0));
                let _ = write!(f, "{:>12}", FIXED_BASE + fixed_run);
                let _ = f.flush();
            }
            let mut ctx = Ctx { build: o.build.clone(), thorough: o.tier == Tier::Thorough, ..Ctx::default() };
            let r = catch(|| p.run(&case, &mut ctx));
            fixed_run += 1;
            let mut s = st.borrow_mut();
            s.evaluations += 1;
            s.queries += ctx.queries;
            if ctx.nontrivial {
                s.nt_hashes.insert(hash_of(&case));
            }
            for (k, v) in ctx.labels.iter() {
                *s.labels.entry(k.clone()).or_insert(0) += v;
            }
            let m = match r {
                Ok(Ok(())) => None,
                Ok(Err(f)) => Some(f.msg),
                Err(pm) => {
                    let n = current_note();
                    Some(format!("{}panic: {pm} during {}({}, {}, {})", harness_prefix(&pm), n.op, n.a, n.b, n.c))
                }
            };
            if let Some(m) = m {
                fixed_failure = Some((m.clone(), case_file(p.id(), &o.build, &m, &case)));
                break;
            }
        }
    }
    }
    if let Some((m, text)) = fixed_failure {
        let s = st.into_inner();
        return json!({
            "property": p.id(), "build": o.build, "shard": o.shard, "seed": o.seed,
            "evaluations": s.evaluations, "queries": s.queries, "excluded_known": 0,
            "labels": s.labels, "nt_hashes": Vec::<String>::new(), "samples": Vec::<Value>::new(),
            "transcripts": Vec::<String>::new(),
            "failure": {"message": m, "first_message": "enumerated (fixed) case", "case_index": fixed_run},
            "failure_file_text": text, "rule": p.rule(), "extra": {"fixed_cases": fixed_run, "huge_probes": probes_run},
            "wall_s": t0.elapsed().as_secs_f64(),
        });
    }

    let status_cell = RefCell::new(&mut status_file);
    let result = runner.run(&strat, |case| {
        let idx = st.borrow().idx;
        let counting = !st.borrow().failed;
        if counting {
            st.borrow_mut().idx += 1;
            if let Some(di) = o.dump_index {
                if idx == di {
                    let txt = case_file(p.id(), &o.build, "", &case);
                    std::fs::write(o.dump_to.as_ref().unwrap(), txt).unwrap();
                    std::process::exit(0);
                }
                return Ok(());
            }
            if let Some(f) = status_cell.borrow_mut().as_mut() {
                use std::io::Seek;
                let _ = f.seek(std::io::SeekFrom::Start(0));
                let _ = write!(f, "{:>12}", idx);
                let _ = f.flush();
            }
        }
        let mut ctx = Ctx {
            build: o.build.clone(),
            thorough: o.tier == Tier::Thorough,
            ..Ctx::default()
        };
        let r = catch(|| p.run(&case, &mut ctx));
        let verdict: Result<(), String> = match r {
            Ok(Ok(())) => Ok(()),
            Ok(Err(f)) => Err(f.msg),
            Err(panic_msg) => {
                let n = current_note();
                Err(format!(
                    "{}panic: {panic_msg} during {}({}, {}, {})",
                    harness_prefix(&panic_msg), n.op, n.a, n.b, n.c
                ))
            }
        };
        if counting {
            let mut s = st.borrow_mut();
            s.evaluations += 1;
            s.queries += ctx.queries;
            s.excluded_known += ctx.excluded_known;
            for (k, v) in ctx.labels.iter() {
                *s.labels.entry(k.clone()).or_insert(0) += v;
            }
            s.transcripts.push(ctx.transcript);
            if ctx.nontrivial {
                let h = hash_of(&case);
                if s.nt_hashes.insert(h) && s.samples.len() < 3 {
                    let v = p.sample(&case);
                    s.samples.push(v);
                }
            }
            if let Err(m) = &verdict {
                s.failed = true;
                s.first_failure_msg = Some(m.clone());
            }
        }
        verdict.map_err(TestCaseError::fail)
    });

    let s = st.into_inner();
    let mut failing_case_text: Option<String> = None;
    let failure = match result {
        Ok(()) => Value::Null,
        Err(TestError::Fail(reason, case)) => {
            // post-shrink pass: greedy delta debugging with the property's own candidates
            let mut case = case;
            let mut message = reason.message().to_string();
            let mut budget = 300;
            let ddmin_start = std::time::Instant::now();
            'outer: while budget > 0 && ddmin_start.elapsed().as_secs() < 30 {
                for cand in p.simplify(&case) {
                    if budget == 0 {
                        break 'outer;
                    }
                    budget -= 1;
                    let mut ctx = Ctx { build: o.build.clone(), thorough: o.tier == Tier::Thorough, ..Ctx::default() };
                    let r = catch(|| p.run(&cand, &mut ctx));
                    let m = match r {
                        Ok(Ok(())) => None,
                        Ok(Err(f)) => Some(f.msg),
                        Err(pm) => {
                            let n = current_note();
                            Some(format!("{}panic: {pm} during {}({}, {}, {})", harness_prefix(&pm), n.op, n.a, n.b, n.c))
                        }
                    };
                    if let Some(m) = m {
                        case = cand;
                        message = m;
                        continue 'outer;
                    }
                }
                break;
            }
            let reason = proptest::test_runner::Reason::from(message);
            failing_case_text = Some(case_file(p.id(), &o.build, reason.message(), &case));
            json!({
                "message": reason.message().to_string(),
                "first_message": s.first_failure_msg,
                "case_index": s.idx.saturating_sub(1),
            })
        }
        Err(TestError::Abort(reason)) => {
            json!({"abort": reason.message().to_string()})
        }
    };
    let out = json!({
        "property": p.id(),
        "build": o.build,
        "shard": o.shard,
        "seed": o.seed,
        "evaluations": s.evaluations,
        "queries": s.queries,
        "excluded_known": s.excluded_known,
        "labels": s.labels,
        "nt_hashes": s.nt_hashes.iter().map(|h| format!("{:016x}", h)).collect::<Vec<_>>(),
        "samples": s.samples,
        "transcripts": s.transcripts.iter().map(|h| format!("{:016x}", h)).collect::<Vec<_>>(),
        "failure": failure,
        "failure_file_text": failing_case_text,
        "rule": p.rule(),
        "extra": {"fixed_cases": fixed_run, "huge_probes": probes_run},
        "wall_s": t0.elapsed().as_secs_f64(),
    });
    out
}

/// A panic raised by the harness's own code (location relative to this crate: `src/...`) is a bug
/// of the machinery, not a finding about qwt: it is reported as inconclusive, never as a violation.
pub fn harness_prefix(panic_msg: &str) -> &'static str {
    if panic_msg.contains(" @ src/") || panic_msg.contains(" @ fuzz/") {
        "HARNESS-ERROR "
    } else {
        ""
    }
}

/// Text of a replay file. The case is spliced in as text because `serde_json::Value` cannot
/// hold 128-bit symbols.
pub fn case_file<C: Serialize>(prop: &str, build: &str, message: &str, case: &C) -> String {
    format!(
        "{{\"property\":{},\"build\":{},\"message\":{},\"case\":{}}}",
        serde_json::to_string(prop).unwrap(),
        serde_json::to_string(build).unwrap(),
        serde_json::to_string(message).unwrap(),
        serde_json::to_string(case).unwrap()
    )
}

/// Re-executes one saved case, bypassing proptest. Returns (ok, message).
pub fn replay_prop<P: Prop>(p: &P, text: &str, build: &str, strict: bool) -> (bool, String) {
    #[derive(serde::Deserialize)]
    struct File<C> {
        case: C,
    }
    #[derive(serde::Deserialize)]
    struct ProbeFile {
        probe: String,
    }
    if let Ok(pf) = serde_json::from_str::<ProbeFile>(text) {
        for pr in crate::huge::probes_for(p.id()) {
            if pr.name == pf.probe {
                let mut ctx = Ctx { strict, build: build.to_string(), thorough: true, ..Ctx::default() };
                return match catch(|| (pr.run)(&mut ctx)) {
                    Ok(Ok(())) => (true, format!("probe {} held ({} comparisons)", pr.name, ctx.queries)),
                    Ok(Err(fl)) => (false, fl.msg),
                    Err(pm) => (false, format!("panic: {pm}")),
                };
            }
        }
        return (false, format!("unknown probe {}", pf.probe));
    }
    let f: File<P::Case> = match serde_json::from_str(text) {
        Ok(f) => f,
        Err(e) => return (false, format!("cannot parse replay file: {e}")),
    };
    let mut ctx = Ctx {
        strict,
        build: build.to_string(),
        ..Ctx::default()
    };
    match catch(|| p.run(&f.case, &mut ctx)) {
        Ok(Ok(())) => (true, format!("held ({} comparisons)", ctx.queries)),
        Ok(Err(fl)) => (false, fl.msg),
        Err(pm) => {
            let n = current_note();
            (
                false,
                format!("{}panic: {pm} during {}({}, {}, {})", harness_prefix(&pm), n.op, n.a, n.b, n.c),
            )
        }
    }
}

/// Shrinks nothing, just draws `count` values (used to print generator samples).
pub fn draw<P: Prop>(p: &P, tier: Tier, seed: u64, count: usize) -> Vec<P::Case> {
    let mut runner = TestRunner::new(Config {
        rng_seed: RngSeed::Fixed(seed),
        failure_persistence: None,
        ..Config::default()
    });
    let s = p.strategy(tier, "fast");
    (0..count)
        .map(|_| s.new_tree(&mut runner).unwrap().current())
        .collect()
}

/// One replay-file text per simplification candidate of the case stored in `text`.
pub fn candidates_of<P: Prop>(p: &P, text: &str, build: &str) -> Vec<String> {
    #[derive(serde::Deserialize)]
    struct File<C> {
        case: C,
    }
    let f: File<P::Case> = match serde_json::from_str(text) {
        Ok(f) => f,
        Err(_) => return vec![],
    };
    p.simplify(&f.case)
        .iter()
        .take(60)
        .map(|c| case_file(p.id(), build, "", c))
        .collect()
}
