//! Object-safe adapter over the 60 wavelet-tree instantiations (10 kinds x 6 element types).
use crate::elem::{Elem, ElemTy};
use num_traits::AsPrimitive;
use qwt::binwt::BinRSforWT;
use qwt::quadwt::RSforWT;
use qwt::{
    AccessUnsigned, HuffQWaveletTree, QWaveletTree, RSQVector256, RSQVector512, RSWide,
    RankUnsigned, SelectUnsigned, SpaceUsage, WaveletTree,
};
use serde::{de::DeserializeOwned, Deserialize, Serialize};
use std::any::Any;

#[derive(Clone, Copy, Debug, PartialEq, Eq, Hash, Serialize, Deserialize, PartialOrd, Ord)]
pub enum TreeKind {
    Qwt256,
    Qwt512,
    Qwt256Pfs,
    Qwt512Pfs,
    Hqwt256,
    Hqwt512,
    Hqwt256Pfs,
    Hqwt512Pfs,
    Wt,
    Hwt,
}

impl TreeKind {
    pub const ALL: [TreeKind; 10] = [
        TreeKind::Qwt256,
        TreeKind::Qwt512,
        TreeKind::Qwt256Pfs,
        TreeKind::Qwt512Pfs,
        TreeKind::Hqwt256,
        TreeKind::Hqwt512,
        TreeKind::Hqwt256Pfs,
        TreeKind::Hqwt512Pfs,
        TreeKind::Wt,
        TreeKind::Hwt,
    ];
    pub const QUAD_PLAIN: [TreeKind; 4] = [
        TreeKind::Qwt256,
        TreeKind::Qwt512,
        TreeKind::Qwt256Pfs,
        TreeKind::Qwt512Pfs,
    ];
    pub const QUAD_HUFF: [TreeKind; 4] = [
        TreeKind::Hqwt256,
        TreeKind::Hqwt512,
        TreeKind::Hqwt256Pfs,
        TreeKind::Hqwt512Pfs,
    ];
    pub const QUAD_ALL: [TreeKind; 8] = [
        TreeKind::Qwt256,
        TreeKind::Qwt512,
        TreeKind::Qwt256Pfs,
        TreeKind::Qwt512Pfs,
        TreeKind::Hqwt256,
        TreeKind::Hqwt512,
        TreeKind::Hqwt256Pfs,
        TreeKind::Hqwt512Pfs,
    ];
    pub const BINARY: [TreeKind; 2] = [TreeKind::Wt, TreeKind::Hwt];

    pub fn is_huffman(self) -> bool {
        matches!(
            self,
            TreeKind::Hqwt256
                | TreeKind::Hqwt512
                | TreeKind::Hqwt256Pfs
                | TreeKind::Hqwt512Pfs
                | TreeKind::Hwt
        )
    }
    pub fn is_quad(self) -> bool {
        !matches!(self, TreeKind::Wt | TreeKind::Hwt)
    }
    pub fn has_pfs(self) -> bool {
        matches!(
            self,
            TreeKind::Qwt256Pfs | TreeKind::Qwt512Pfs | TreeKind::Hqwt256Pfs | TreeKind::Hqwt512Pfs
        )
    }
    pub fn block(self) -> usize {
        match self {
            TreeKind::Qwt256 | TreeKind::Qwt256Pfs | TreeKind::Hqwt256 | TreeKind::Hqwt256Pfs => 256,
            TreeKind::Wt | TreeKind::Hwt => 512,
            _ => 512,
        }
    }
    pub fn name(self) -> &'static str {
        match self {
            TreeKind::Qwt256 => "QWT256",
            TreeKind::Qwt512 => "QWT512",
            TreeKind::Qwt256Pfs => "QWT256Pfs",
            TreeKind::Qwt512Pfs => "QWT512Pfs",
            TreeKind::Hqwt256 => "HQWT256",
            TreeKind::Hqwt512 => "HQWT512",
            TreeKind::Hqwt256Pfs => "HQWT256Pfs",
            TreeKind::Hqwt512Pfs => "HQWT512Pfs",
            TreeKind::Wt => "WT",
            TreeKind::Hwt => "HWT",
        }
    }
}

/// How a tree value is obtained.
#[derive(Clone, Copy, Debug, PartialEq, Eq, Hash, Serialize, Deserialize, PartialOrd, Ord)]
pub enum How {
    /// `T::new(&mut [..])`
    New,
    /// `T::from(Vec<_>)`
    FromVec,
    /// `iter.collect()`
    Collect,
    /// `T::default()` (only meaningful for the empty sequence)
    Default,
    /// `iter.collect()` from an iterator with an inexact size hint (`loose::loose_iter`)
    CollectLoose(u8),
}

impl How {
    pub const PATHS: [How; 3] = [How::New, How::FromVec, How::Collect];
}

/// `fmt::Write` sink that stops the formatter after `1` bytes (Debug of a tree with a large code
/// table would otherwise produce megabytes)
pub struct Limited(pub String, pub usize);
impl std::fmt::Write for Limited {
    fn write_str(&mut self, s: &str) -> std::fmt::Result {
        if self.0.len() + s.len() > self.1 {
            return Err(std::fmt::Error);
        }
        self.0.push_str(s);
        Ok(())
    }
}

pub trait DynIter {
    fn next(&mut self) -> Option<u128>;
    fn next_back(&mut self) -> Option<u128>;
    fn len(&self) -> usize;
    fn nth(&mut self, n: usize) -> Option<u128>;
    fn nth_back(&mut self, n: usize) -> Option<u128>;
    fn size_hint(&self) -> (usize, Option<usize>);
}

struct IterWrap<I>(I);
impl<T: Elem, I: DoubleEndedIterator<Item = T> + ExactSizeIterator> DynIter for IterWrap<I> {
    fn next(&mut self) -> Option<u128> {
        self.0.next().map(|x| x.to_u128())
    }
    fn next_back(&mut self) -> Option<u128> {
        self.0.next_back().map(|x| x.to_u128())
    }
    fn len(&self) -> usize {
        self.0.len()
    }
    fn nth(&mut self, n: usize) -> Option<u128> {
        self.0.nth(n).map(|x| x.to_u128())
    }
    fn nth_back(&mut self, n: usize) -> Option<u128> {
        self.0.nth_back(n).map(|x| x.to_u128())
    }
    fn size_hint(&self) -> (usize, Option<usize>) {
        self.0.size_hint()
    }
}

pub trait DynSeq {
    fn kind(&self) -> TreeKind;
    fn ty(&self) -> ElemTy;
    fn len(&self) -> usize;
    fn is_empty(&self) -> bool;
    /// `Some(sigma())` for the plain quad tree (the only kind with that accessor)
    fn sigma(&self) -> Option<Option<u128>>;
    fn n_levels(&self) -> usize;
    fn get(&self, i: usize) -> Option<u128>;
    fn rank(&self, c: u128, i: usize) -> Option<usize>;
    fn select(&self, c: u128, k: usize) -> Option<usize>;
    /// `None` when the kind has no `rank_prefetch` (binary trees)
    fn rank_prefetch(&self, c: u128, i: usize) -> Option<Option<usize>>;
    /// # Safety: i < len
    unsafe fn get_unchecked(&self, i: usize) -> u128;
    /// # Safety: documented precondition of rank_unchecked
    unsafe fn rank_unchecked(&self, c: u128, i: usize) -> usize;
    /// # Safety: documented precondition of select_unchecked
    unsafe fn select_unchecked(&self, c: u128, k: usize) -> usize;
    /// # Safety: documented precondition of rank_prefetch_unchecked
    unsafe fn rank_prefetch_unchecked(&self, c: u128, i: usize) -> Option<usize>;
    fn iter_box(&self) -> Box<dyn DynIter + '_>;
    /// `(&tree).into_iter()`
    fn ref_into_iter_box(&self) -> Box<dyn DynIter + '_>;
    fn into_iter_box(self: Box<Self>) -> Box<dyn DynIter>;
    fn clone_box(&self) -> Box<dyn DynSeq>;
    /// `let mut d = donor.clone(); d.clone_from(self); d` (None when the donor has another type)
    fn clone_from_into(&self, donor: &dyn DynSeq) -> Option<Box<dyn DynSeq>>;
    fn eq_dyn(&self, other: &dyn DynSeq) -> bool;
    fn ser(&self) -> Result<Vec<u8>, String>;
    fn de_same(&self, bytes: &[u8]) -> Result<Box<dyn DynSeq>, String>;
    fn space_usage_byte(&self) -> usize;
    fn space_scaled(&self) -> (f64, f64, f64);
    fn size_of_val(&self) -> usize;
    fn as_any(&self) -> &dyn Any;
    fn debug_string(&self) -> String;
    /// provided iterator methods on the concrete `WTIterator` types (forward and reversed)
    fn check_iter_adapters(&self, s: &[u128], seed: u64, ctx: &mut crate::runner::Ctx) -> crate::runner::CheckResult;
}

// ---------------------------------------------------------------------------------------------
// constructors

macro_rules! common_body {
    () => {
        fn ty(&self) -> ElemTy {
            T::TY
        }
        fn len(&self) -> usize {
            Self::len(self)
        }
        fn is_empty(&self) -> bool {
            Self::is_empty(self)
        }
        fn n_levels(&self) -> usize {
            Self::n_levels(self)
        }
        fn get(&self, i: usize) -> Option<u128> {
            AccessUnsigned::get(self, i).map(|x| x.to_u128())
        }
        fn rank(&self, c: u128, i: usize) -> Option<usize> {
            RankUnsigned::rank(self, T::from_u128(c), i)
        }
        fn select(&self, c: u128, k: usize) -> Option<usize> {
            SelectUnsigned::select(self, T::from_u128(c), k)
        }
        unsafe fn get_unchecked(&self, i: usize) -> u128 {
            AccessUnsigned::get_unchecked(self, i).to_u128()
        }
        unsafe fn rank_unchecked(&self, c: u128, i: usize) -> usize {
            RankUnsigned::rank_unchecked(self, T::from_u128(c), i)
        }
        unsafe fn select_unchecked(&self, c: u128, k: usize) -> usize {
            SelectUnsigned::select_unchecked(self, T::from_u128(c), k)
        }
        fn iter_box(&self) -> Box<dyn DynIter + '_> {
            Box::new(IterWrap(self.iter()))
        }
        fn ref_into_iter_box(&self) -> Box<dyn DynIter + '_> {
            Box::new(IterWrap(<&Self as IntoIterator>::into_iter(self)))
        }
        fn into_iter_box(self: Box<Self>) -> Box<dyn DynIter> {
            Box::new(IterWrap((*self).into_iter()))
        }
        fn clone_box(&self) -> Box<dyn DynSeq> {
            Box::new(self.clone())
        }
        fn clone_from_into(&self, donor: &dyn DynSeq) -> Option<Box<dyn DynSeq>> {
            let d = donor.as_any().downcast_ref::<Self>()?;
            let mut d = d.clone();
            d.clone_from(self);
            Some(Box::new(d))
        }
        fn eq_dyn(&self, other: &dyn DynSeq) -> bool {
            match other.as_any().downcast_ref::<Self>() {
                Some(o) => self == o,
                None => false,
            }
        }
        fn ser(&self) -> Result<Vec<u8>, String> {
            bincode::serialize(self).map_err(|e| e.to_string())
        }
        fn de_same(&self, bytes: &[u8]) -> Result<Box<dyn DynSeq>, String> {
            bincode::deserialize::<Self>(bytes)
                .map(|x| Box::new(x) as Box<dyn DynSeq>)
                .map_err(|e| e.to_string())
        }
        fn space_usage_byte(&self) -> usize {
            SpaceUsage::space_usage_byte(self)
        }
        fn space_scaled(&self) -> (f64, f64, f64) {
            (
                SpaceUsage::space_usage_KiB(self),
                SpaceUsage::space_usage_MiB(self),
                SpaceUsage::space_usage_GiB(self),
            )
        }
        fn size_of_val(&self) -> usize {
            std::mem::size_of_val(self)
        }
        fn as_any(&self) -> &dyn Any {
            self
        }
        fn check_iter_adapters(&self, s: &[u128], seed: u64, ctx: &mut crate::runner::Ctx) -> crate::runner::CheckResult {
            use crate::iteradapt::check_adapters as ca;
            let e: Vec<T> = s.iter().map(|&x| T::from_u128(x)).collect();
            let mut r = e.clone();
            r.reverse();
            let who = format!("{}<{}>", self.kind().name(), T::TY.name());
            ca(|| self.iter(), &e, seed, &format!("{who} iter()"), ctx)?;
            ca(|| self.iter().rev(), &r, seed ^ 1, &format!("{who} iter().rev()"), ctx)?;
            ca(|| <&Self as IntoIterator>::into_iter(self), &e, seed ^ 2, &format!("{who} (&t).into_iter()"), ctx)?;
            if s.len() <= 3000 {
                ca(|| self.clone().into_iter(), &e, seed ^ 3, &format!("{who} into_iter()"), ctx)?;
                ca(|| self.clone().into_iter().rev(), &r, seed ^ 4, &format!("{who} into_iter().rev()"), ctx)?;
            }
            Ok(())
        }
        fn debug_string(&self) -> String {
            use std::fmt::Write;
            let mut w = $crate::trees::Limited(String::new(), 4000);
            let _ = write!(w, "{:?}", self);
            w.0
        }
    };
}

pub trait BlockOf {
    const BLOCK: usize;
}
impl BlockOf for RSQVector256 {
    const BLOCK: usize = 256;
}
impl BlockOf for RSQVector512 {
    const BLOCK: usize = 512;
}

impl<T, RS, const P: bool> DynSeq for QWaveletTree<T, RS, P>
where
    T: Elem,
    usize: AsPrimitive<T>,
    RS: RSforWT
        + BlockOf
        + Clone
        + PartialEq
        + std::fmt::Debug
        + Serialize
        + DeserializeOwned
        + Send
        + Sync
        + 'static,
{
    fn kind(&self) -> TreeKind {
        match (RS::BLOCK, P) {
            (256, false) => TreeKind::Qwt256,
            (256, true) => TreeKind::Qwt256Pfs,
            (_, false) => TreeKind::Qwt512,
            (_, true) => TreeKind::Qwt512Pfs,
        }
    }
    fn sigma(&self) -> Option<Option<u128>> {
        Some(Self::sigma(self).map(|x| x.to_u128()))
    }
    fn rank_prefetch(&self, c: u128, i: usize) -> Option<Option<usize>> {
        Some(Self::rank_prefetch(self, T::from_u128(c), i))
    }
    unsafe fn rank_prefetch_unchecked(&self, c: u128, i: usize) -> Option<usize> {
        Some(Self::rank_prefetch_unchecked(self, T::from_u128(c), i))
    }
    common_body!();
}

impl<T, RS, const P: bool> DynSeq for HuffQWaveletTree<T, RS, P>
where
    T: Elem,
    usize: AsPrimitive<T>,
    RS: RSforWT
        + BlockOf
        + Clone
        + PartialEq
        + std::fmt::Debug
        + Serialize
        + DeserializeOwned
        + Send
        + Sync
        + 'static,
{
    fn kind(&self) -> TreeKind {
        match (RS::BLOCK, P) {
            (256, false) => TreeKind::Hqwt256,
            (256, true) => TreeKind::Hqwt256Pfs,
            (_, false) => TreeKind::Hqwt512,
            (_, true) => TreeKind::Hqwt512Pfs,
        }
    }
    fn sigma(&self) -> Option<Option<u128>> {
        None
    }
    fn rank_prefetch(&self, c: u128, i: usize) -> Option<Option<usize>> {
        Some(Self::rank_prefetch(self, T::from_u128(c), i))
    }
    unsafe fn rank_prefetch_unchecked(&self, c: u128, i: usize) -> Option<usize> {
        Some(Self::rank_prefetch_unchecked(self, T::from_u128(c), i))
    }
    common_body!();
}

impl<T, BRS, const C: bool> DynSeq for WaveletTree<T, BRS, C>
where
    T: Elem,
    usize: AsPrimitive<T>,
    BRS: BinRSforWT
        + Clone
        + PartialEq
        + std::fmt::Debug
        + Serialize
        + DeserializeOwned
        + Send
        + Sync
        + 'static,
{
    fn kind(&self) -> TreeKind {
        if C {
            TreeKind::Hwt
        } else {
            TreeKind::Wt
        }
    }
    fn sigma(&self) -> Option<Option<u128>> {
        None
    }
    fn rank_prefetch(&self, _c: u128, _i: usize) -> Option<Option<usize>> {
        None
    }
    unsafe fn rank_prefetch_unchecked(&self, _c: u128, _i: usize) -> Option<usize> {
        None
    }
    common_body!();
}

fn mk<T: Elem, W>(how: How, data: &[u128]) -> Box<dyn DynSeq>
where
    W: DynSeq + Default + From<Vec<T>> + FromIterator<T> + NewFromSlice<T> + 'static,
{
    let mut v: Vec<T> = data.iter().map(|&x| T::from_u128(x)).collect();
    match how {
        How::New => Box::new(W::new_from_slice(&mut v[..])),
        How::FromVec => Box::new(W::from(v)),
        How::Collect => Box::new(v.into_iter().collect::<W>()),
        How::CollectLoose(mode) => Box::new(crate::loose::loose_iter(v, mode).collect::<W>()),
        How::Default => Box::new(W::default()),
    }
}

pub trait NewFromSlice<T> {
    fn new_from_slice(v: &mut [T]) -> Self;
}
impl<T, RS, const P: bool> NewFromSlice<T> for QWaveletTree<T, RS, P>
where
    T: Elem,
    usize: AsPrimitive<T>,
    RS: RSforWT,
{
    fn new_from_slice(v: &mut [T]) -> Self {
        Self::new(v)
    }
}
impl<T, RS, const P: bool> NewFromSlice<T> for HuffQWaveletTree<T, RS, P>
where
    T: Elem,
    usize: AsPrimitive<T>,
    RS: RSforWT,
{
    fn new_from_slice(v: &mut [T]) -> Self {
        Self::new(v)
    }
}
impl<T, BRS, const C: bool> NewFromSlice<T> for WaveletTree<T, BRS, C>
where
    T: Elem,
    usize: AsPrimitive<T>,
    BRS: BinRSforWT,
{
    fn new_from_slice(v: &mut [T]) -> Self {
        Self::new(v)
    }
}

fn build_t<T: Elem>(kind: TreeKind, how: How, data: &[u128]) -> Box<dyn DynSeq>
where
    usize: AsPrimitive<T>,
{
    match kind {
        // through the crate's own aliases (what users write), not the spelled-out instantiations
        TreeKind::Qwt256 => mk::<T, qwt::QWT256<T>>(how, data),
        TreeKind::Qwt512 => mk::<T, qwt::QWT512<T>>(how, data),
        TreeKind::Qwt256Pfs => mk::<T, qwt::QWT256Pfs<T>>(how, data),
        TreeKind::Qwt512Pfs => mk::<T, qwt::QWT512Pfs<T>>(how, data),
        TreeKind::Hqwt256 => mk::<T, qwt::HQWT256<T>>(how, data),
        TreeKind::Hqwt512 => mk::<T, qwt::HQWT512<T>>(how, data),
        TreeKind::Hqwt256Pfs => mk::<T, qwt::HQWT256Pfs<T>>(how, data),
        TreeKind::Hqwt512Pfs => mk::<T, qwt::HQWT512Pfs<T>>(how, data),
        TreeKind::Wt => mk::<T, qwt::WT<T>>(how, data),
        TreeKind::Hwt => mk::<T, qwt::HWT<T>>(how, data),
    }
}

/// Builds a tree of the given kind over `data` (values are truncated to the element type; the
/// generators only produce values that fit). `tie_seed` drives the cfg(qwt_verif) hook.
pub fn build_tree(
    kind: TreeKind,
    ty: ElemTy,
    how: How,
    data: &[u128],
    tie_seed: Option<u64>,
) -> Box<dyn DynSeq> {
    qwt::verif_hooks::set_tie_seed(if kind.is_huffman() { tie_seed } else { None });
    let r = match ty {
        ElemTy::U8 => build_t::<u8>(kind, how, data),
        ElemTy::U16 => build_t::<u16>(kind, how, data),
        ElemTy::U32 => build_t::<u32>(kind, how, data),
        ElemTy::U64 => build_t::<u64>(kind, how, data),
        ElemTy::Usize => build_t::<usize>(kind, how, data),
        ElemTy::U128 => build_t::<u128>(kind, how, data),
    };
    qwt::verif_hooks::set_tie_seed(None);
    r
}
