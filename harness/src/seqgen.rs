//! Generators for symbol sequences (shared by all wavelet-tree properties).
use crate::elem::ElemTy;
use crate::trees::{How, TreeKind};
use crate::util::Rng;
use proptest::prelude::*;
use serde::{Deserialize, Serialize};

#[derive(Clone, Copy, Debug, PartialEq, Eq, Hash, Serialize, Deserialize)]
pub enum Profile {
    Uniform,
    /// weight 1/(j+1)^s
    Zipf(u8),
    /// weight (num/8)^j
    Geometric(u8),
    /// Fibonacci-like weights: maximises the depth of a Huffman code
    Fib,
    /// one symbol takes almost everything, the others occur once
    OneRare,
    /// two frequent symbols, the rest rare
    TwoFrequent,
    /// groups of exactly equal counts (tie classes)
    Ties(u8),
    /// the cheapest profile forcing a k-ary Huffman code of maximal depth for the given n and
    /// alphabet (k = 4 or 2): k leaves of weight 1 at the bottom, then k-1 leaves per level, each
    /// heavier than the subtree two levels below
    Deep(u8),
    /// like `Deep(4)`, but with two chains of internal nodes below the root of a 4-ary Huffman
    /// code (each level holds 2 internal nodes and 6 leaves): deep codes that differ in their
    /// first digit. The parameter is the number of chains (only 2 is built).
    DeepChains(u8),
    /// one symbol occurs exactly min(2^lg + plus, n - (d-1)) times, the others share the rest
    /// evenly: counts just above a power of two (count arithmetic in narrow integer types)
    DominantAt(u8, u16),
    /// one symbol is k times as frequent as each of the others, which are exactly tied (the
    /// optimal code then mixes two lengths inside the tie class)
    HeavyTied(u8),
}

#[derive(Clone, Copy, Debug, PartialEq, Eq, Hash, Serialize, Deserialize)]
pub enum Arr {
    Shuffled,
    Sorted,
    /// runs with the given mean length (log2)
    Runs(u8),
    Periodic,
    /// all occurrences of the first symbol packed at a pseudo-random place, rest shuffled
    Packed,
    /// runs whose lengths are 2^k - 1, 2^k or 2^k + 1 (k up to the given log2): run boundaries fall
    /// on and next to block / sampling boundaries
    RunsPow2(u8),
    /// shuffled data followed (or, if the flag is set, preceded) by a run holding k/8 of the
    /// occurrences of the most frequent symbol: padded files, BWT-like tails
    Padded(bool, u8),
    /// shuffled, except that the occurrences number 8192*k + {-1, 0, 1} of one first-level symbol
    /// class (symbols sharing the top two bits if the byte is even, the top bit otherwise) are
    /// put on positions B*S + {-1, 0, 1}, S in {256, 512, 2048, 4096}: select samples that
    /// coincide with block and superblock borders (see `align_occurrences`).
    Aligned(u8),
}

#[derive(Clone, Debug, PartialEq, Eq, Hash, Serialize, Deserialize)]
pub struct Recipe {
    pub n: usize,
    pub alphabet: Vec<u128>,
    pub profile: Profile,
    pub arr: Arr,
    pub seed: u64,
}

#[derive(Clone, Debug, PartialEq, Eq, Hash, Serialize, Deserialize)]
pub enum Content {
    Explicit(Vec<u128>),
    Recipe(Recipe),
}

impl Content {
    pub fn expand(&self) -> Vec<u128> {
        match self {
            Content::Explicit(v) => v.clone(),
            Content::Recipe(r) => r.expand(),
        }
    }
    pub fn len_hint(&self) -> usize {
        match self {
            Content::Explicit(v) => v.len(),
            Content::Recipe(r) => r.n,
        }
    }
}

fn fib_weights(d: usize) -> Vec<f64> {
    // Fibonacci numbers (capped), largest first
    let mut f: Vec<f64> = Vec::with_capacity(d);
    let (mut a, mut b) = (1.0f64, 1.0f64);
    for _ in 0..d {
        f.push(a);
        let c = (a + b).min(1e15);
        a = b;
        b = c;
    }
    f.reverse();
    f
}

/// counts (largest first) of the deepest k-ary Huffman shape that fits n symbols and d distinct
pub fn deep_counts(n: usize, d: usize, k: usize) -> Vec<usize> {
    // bottom level: k leaves of weight 1; level j adds k-1 leaves of weight a_j = max(a_{j-1}, S_{j-2}+1)
    if d < k || n < k {
        let mut c = vec![1usize; d.min(n)];
        if let Some(f) = c.first_mut() {
            *f += n - d.min(n);
        }
        return c;
    }
    let mut counts: Vec<usize> = vec![1; k];
    let mut s_prev2 = 1usize; // S_{j-2}
    let mut s_prev = k; // S_{j-1}
    let mut a_prev = 1usize;
    loop {
        let a = a_prev.max(s_prev2 + 1);
        let add = (k - 1) * a;
        if counts.len() + (k - 1) > d || s_prev + add > n {
            break;
        }
        for _ in 0..k - 1 {
            counts.push(a);
        }
        s_prev2 = s_prev;
        s_prev += add;
        a_prev = a;
    }
    let last = counts.len() - 1;
    counts[last] += n - s_prev;
    counts.reverse();
    counts
}

/// Shuffles `cls` and `oth` together such that the sampled occurrences of the `cls` elements
/// (number 8192*k + {-1, 0, 1}, for every k that fits) land on positions B*S + {-1, 0, 1}
/// (S in {256, 512, 2048, 4096}): select samples that coincide with block and superblock borders.
/// Per sample the border is either one of the first three feasible ones (dense stretch) or up to
/// twice the fair share of `oth` elements away (sparse stretch). With at most 8192 `cls` elements
/// one pseudo-random occurrence is aligned. `cls` must not be empty.
pub fn align_occurrences<T: Copy>(mut cls: Vec<T>, mut oth: Vec<T>, rng: &mut Rng) -> Vec<T> {
    rng.shuffle(&mut cls);
    rng.shuffle(&mut oth);
    let total = cls.len();
    const SAMPLE: usize = 8192;
    // 0-based indices of the occurrences to align
    let mut targets: Vec<usize> = Vec::new();
    if total <= SAMPLE {
        targets.push(rng.below_usize(total));
    } else {
        let mut k = 1;
        loop {
            let t = k * SAMPLE + rng.below_usize(3) - 1;
            if t >= total {
                break;
            }
            targets.push(t);
            k += 1;
        }
    }
    let mut out: Vec<T> = Vec::with_capacity(total + oth.len());
    let (mut ci, mut oi) = (0usize, 0usize);
    let m = targets.len();
    for (idx, &t) in targets.iter().enumerate() {
        let start = out.len();
        let min_q = start + (t - ci);
        let rem_oth = oth.len() - oi;
        let s_size = [256usize, 512, 2048, 4096][rng.below_usize(4)];
        let dq = rng.below_usize(3);
        let room = if rng.chance(1, 2) { rem_oth.min(3 * s_size) } else { rem_oth.min(2 * rem_oth / (m - idx)) };
        let (lo_b, hi_b) = ((min_q + 1 + s_size) / s_size, (min_q + room) / s_size);
        let q = if hi_b >= lo_b {
            let b = lo_b + rng.below_usize(hi_b - lo_b + 1);
            (b * s_size + dq).saturating_sub(1).clamp(min_q, min_q + rem_oth)
        } else {
            min_q + rng.below_usize(room + 1)
        };
        let use_oth = q - min_q;
        out.extend_from_slice(&cls[ci..t]);
        out.extend_from_slice(&oth[oi..oi + use_oth]);
        rng.shuffle(&mut out[start..]);
        out.push(cls[t]);
        ci = t + 1;
        oi += use_oth;
    }
    let start = out.len();
    out.extend_from_slice(&cls[ci..]);
    out.extend_from_slice(&oth[oi..]);
    rng.shuffle(&mut out[start..]);
    out
}

/// counts (largest first) of the cheapest 4-ary Huffman shape with `c` (= 2) equally deep
/// chains below the root that fits n symbols and d distinct ones. Step s merges the lightest
/// chain subtree with three new leaves of weight x_s, where x_s is strictly heavier than the
/// subtree merged in step s-1 (so those leaves were not picked earlier) and lighter than every
/// other subtree; 4-c leaves heavier than everything complete the root.
pub fn deep_chain_counts(n: usize, d: usize, c: usize) -> Vec<usize> {
    let k = 4usize;
    let c = c.clamp(2, 2); // three chains would need bottoms of different weights; not built
    let heavy = k - c;
    if d < c * k + heavy || n < c * k + heavy * (k + 1) {
        return deep_counts(n, d, k);
    }
    let mut counts: Vec<usize> = vec![1; c * k];
    let mut sub: Vec<usize> = vec![k; c];
    let mut x_prev = 1usize;
    let mut merged_prev = 0usize;
    loop {
        // complete rounds only, so that all chains have the same depth
        let mut trial_counts: Vec<usize> = Vec::new();
        let mut trial_sub = sub.clone();
        let (mut xp, mut mp) = (x_prev, merged_prev);
        for _ in 0..c {
            let j = (0..c).min_by_key(|&j| trial_sub[j]).unwrap();
            let x = xp.max(mp + 1);
            mp = trial_sub[j];
            trial_sub[j] += (k - 1) * x;
            xp = x;
            for _ in 0..k - 1 {
                trial_counts.push(x);
            }
        }
        let h = trial_sub.iter().max().unwrap() + 1;
        let total: usize = trial_sub.iter().sum::<usize>() + heavy * h;
        if counts.len() + trial_counts.len() + heavy > d || total > n {
            break;
        }
        counts.extend(trial_counts);
        sub = trial_sub;
        x_prev = xp;
        merged_prev = mp;
    }
    let h = sub.iter().max().unwrap() + 1;
    let mut used: usize = sub.iter().sum();
    for _ in 0..heavy {
        counts.push(h);
        used += h;
    }
    let last = counts.len() - 1;
    counts[last] += n - used;
    counts.reverse();
    counts
}

impl Recipe {
    /// exact counts per alphabet symbol (sum == n; symbols beyond n are dropped)
    pub fn counts(&self) -> Vec<usize> {
        let d = self.alphabet.len().min(self.n.max(1));
        if self.n == 0 || d == 0 {
            return vec![];
        }
        if let Profile::Deep(k) = self.profile {
            return deep_counts(self.n, d, if k == 2 { 2 } else { 4 });
        }
        if let Profile::DeepChains(c) = self.profile {
            return deep_chain_counts(self.n, d, c as usize);
        }
        if let Profile::HeavyTied(k) = self.profile {
            let k = k.max(2) as usize;
            let c = (self.n / (k + d - 1)).max(1);
            let mut counts = vec![c; d];
            counts[0] = self.n - c * (d - 1);
            return counts;
        }
        if let Profile::DominantAt(lg, plus) = self.profile {
            // a single symbol takes everything
            let dom = if d == 1 { self.n } else { ((1usize << lg.min(40)) + plus as usize).min(self.n - (d - 1)) };
            let mut counts = vec![dom];
            if d > 1 {
                let rest = self.n - dom;
                for j in 0..d - 1 {
                    counts.push(rest / (d - 1) + usize::from(j < rest % (d - 1)));
                }
            }
            return counts;
        }
        let w: Vec<f64> = match self.profile {
            Profile::Uniform => vec![1.0; d],
            Profile::Zipf(s) => (0..d)
                .map(|j| 1.0 / ((j + 1) as f64).powi(s.clamp(1, 3) as i32))
                .collect(),
            Profile::Geometric(num) => {
                let r = (num.clamp(1, 7) as f64) / 8.0;
                (0..d).map(|j| r.powi(j as i32).max(1e-300)).collect()
            }
            Profile::Fib => fib_weights(d),
            Profile::OneRare => (0..d).map(|j| if j == 0 { 1e9 } else { 1e-9 }).collect(),
            Profile::TwoFrequent => (0..d).map(|j| if j < 2 { 1e6 } else { 1.0 }).collect(),
            Profile::Deep(_) | Profile::DeepChains(_) | Profile::DominantAt(..) | Profile::HeavyTied(_) => unreachable!(),
            Profile::Ties(g) => {
                let g = g.max(1) as usize;
                (0..d).map(|j| (1u64 << ((j / g).min(40))) as f64).collect()
            }
        };
        let total: f64 = w.iter().sum();
        let spare = self.n - d; // everyone gets one
        let mut counts: Vec<usize> = w
            .iter()
            .map(|x| 1 + ((x / total) * spare as f64).floor() as usize)
            .collect();
        let mut sum: usize = counts.iter().sum();
        // distribute the remainder: for tie profiles keep classes equal as far as possible
        let mut j = 0;
        while sum < self.n {
            let idx = match self.profile {
                Profile::Ties(_) | Profile::Uniform => j % d,
                _ => 0,
            };
            let add = match self.profile {
                Profile::Ties(_) | Profile::Uniform => 1,
                _ => self.n - sum,
            };
            counts[idx] += add;
            sum += add;
            j += 1;
        }
        while sum > self.n {
            // cannot happen with floor, kept for safety
            let k = counts.iter().enumerate().max_by_key(|x| *x.1).unwrap().0;
            counts[k] -= 1;
            sum -= 1;
        }
        counts
    }

    pub fn expand(&self) -> Vec<u128> {
        let counts = self.counts();
        let d = counts.len();
        if d == 0 {
            return vec![];
        }
        let mut rng = Rng::new(self.seed);
        // which alphabet symbol gets which count: pseudo-random assignment so that the most
        // frequent symbol is not always the smallest one
        let mut order: Vec<usize> = (0..d).collect();
        if self.seed & 1 == 1 {
            rng.shuffle(&mut order);
        }
        let sym = |j: usize| self.alphabet[order[j]];
        let mut out: Vec<u128> = Vec::with_capacity(self.n);
        match self.arr {
            Arr::Sorted => {
                let mut pairs: Vec<(u128, usize)> = (0..d).map(|j| (sym(j), counts[j])).collect();
                pairs.sort();
                for (s, c) in pairs {
                    out.extend(std::iter::repeat(s).take(c));
                }
            }
            Arr::Shuffled => {
                for j in 0..d {
                    out.extend(std::iter::repeat(sym(j)).take(counts[j]));
                }
                rng.shuffle(&mut out);
            }
            Arr::Periodic => {
                let mut left = counts.clone();
                let mut remaining = self.n;
                while remaining > 0 {
                    for j in 0..d {
                        if left[j] > 0 {
                            out.push(sym(j));
                            left[j] -= 1;
                            remaining -= 1;
                        }
                    }
                }
            }
            Arr::Runs(lg) => {
                let mean = 1usize << lg.min(12);
                let mut left = counts.clone();
                let mut alive: Vec<usize> = (0..d).collect();
                while !alive.is_empty() {
                    let a = rng.below_usize(alive.len());
                    let j = alive[a];
                    let run = (1 + rng.below_usize(2 * mean)).min(left[j]);
                    out.extend(std::iter::repeat(sym(j)).take(run));
                    left[j] -= run;
                    if left[j] == 0 {
                        alive.swap_remove(a);
                    }
                }
            }
            Arr::RunsPow2(lg) => {
                let mut left = counts.clone();
                let mut alive: Vec<usize> = (0..d).collect();
                while !alive.is_empty() {
                    let a = rng.below_usize(alive.len());
                    let j = alive[a];
                    let k = rng.below(lg.clamp(1, 13) as u64 + 1) as u32;
                    let run = (((1usize << k) + rng.below_usize(3)).saturating_sub(1)).clamp(1, left[j]);
                    out.extend(std::iter::repeat(sym(j)).take(run));
                    left[j] -= run;
                    if left[j] == 0 {
                        alive.swap_remove(a);
                    }
                }
            }
            Arr::Padded(head, eighths) => {
                // symbol 0 of `counts` is the most frequent one for every skewed profile
                // eighths = 9: everything but about one occurrence in a thousand
                let pad = if eighths >= 9 { counts[0] - counts[0] / 1000 - counts[0].min(1) } else { counts[0] * (eighths.clamp(1, 8) as usize) / 8 };
                let mut rest: Vec<u128> = Vec::with_capacity(self.n);
                rest.extend(std::iter::repeat(sym(0)).take(counts[0] - pad));
                for j in 1..d {
                    rest.extend(std::iter::repeat(sym(j)).take(counts[j]));
                }
                rng.shuffle(&mut rest);
                if head {
                    out.extend(std::iter::repeat(sym(0)).take(pad));
                    out.extend_from_slice(&rest);
                } else {
                    out.extend_from_slice(&rest);
                    out.extend(std::iter::repeat(sym(0)).take(pad));
                }
            }
            Arr::Aligned(p) => {
                let p = p as usize;
                let used_max = (0..d).map(sym).max().unwrap_or(0);
                let bits = crate::util::bitlen(used_max).max(1);
                // width of the first-level class: 2 bits (quad trees) or 1 bit (binary trees)
                let shift = if p % 2 == 0 { ((bits + 1) / 2) * 2 - 2 } else { bits - 1 };
                // the class: two times out of three the rarest one with more than one select
                // sample (long sparse search ranges), otherwise the class of a frequent symbol
                let mut totals: Vec<(usize, u128)> = Vec::new();
                for j in 0..d {
                    let c = sym(j) >> shift;
                    match totals.iter_mut().find(|(_, cc)| *cc == c) {
                        Some(e) => e.0 += counts[j],
                        None => totals.push((counts[j], c)),
                    }
                }
                totals.sort();
                let sampled = totals.iter().find(|(tot, _)| *tot > 8192).map(|&(_, c)| c);
                let class = match sampled {
                    Some(c) if rng.chance(2, 3) => c,
                    _ => sym(rng.below_usize(d.min(4))) >> shift,
                };
                let mut cls: Vec<u128> = Vec::new();
                let mut oth: Vec<u128> = Vec::new();
                for j in 0..d {
                    let dst = if sym(j) >> shift == class { &mut cls } else { &mut oth };
                    dst.extend(std::iter::repeat(sym(j)).take(counts[j]));
                }
                out = align_occurrences(cls, oth, &mut rng);
            }
            Arr::Packed => {
                let mut rest: Vec<u128> = Vec::with_capacity(self.n);
                for j in 1..d {
                    rest.extend(std::iter::repeat(sym(j)).take(counts[j]));
                }
                rng.shuffle(&mut rest);
                let at = if rest.is_empty() { 0 } else { rng.below_usize(rest.len() + 1) };
                out.extend_from_slice(&rest[..at]);
                out.extend(std::iter::repeat(sym(0)).take(counts[0]));
                out.extend_from_slice(&rest[at..]);
            }
        }
        debug_assert_eq!(out.len(), self.n);
        out
    }
}

// ---------------------------------------------------------------------------------------------
// strategies

/// block/superblock/sample periods of the code under test
pub const PERIODS: [usize; 10] = [64, 128, 256, 512, 1024, 2048, 4096, 8192, 32768, 65536];

/// lengths `m*B + d`, d in -2..=2, within lo..=hi
pub fn boundary_len(lo: usize, hi: usize) -> BoxedStrategy<usize> {
    (0usize..PERIODS.len(), 1usize..=64, 0usize..5)
        .prop_map(move |(b, m, d)| {
            let p = PERIODS[b];
            let m = m.min((hi / p).max(1));
            let v = (m * p + d).saturating_sub(2);
            v.clamp(lo, hi)
        })
        .boxed()
}

/// An alphabet: sorted distinct symbols, all <= cap. Never empty.
pub fn alphabet(cap: u128, max_d: usize) -> BoxedStrategy<Vec<u128>> {
    let capbits = crate::util::bitlen(cap).max(1);
    let norm = move |mut v: Vec<u128>| {
        for x in v.iter_mut() {
            if *x > cap {
                *x = cap
            }
        }
        v.sort();
        v.dedup();
        if v.is_empty() {
            v.push(0)
        }
        v
    };
    // a value with a generated bit length (log-uniform)
    let logu = (0..=capbits, any::<u128>()).prop_map(move |(bits, raw)| {
        if bits == 0 {
            0
        } else {
            let top = 1u128 << (bits - 1);
            let v = top | (raw & (top - 1));
            v.min(cap)
        }
    });
    // boundary maxima: 4^k-1, 4^k, 4^k+1, 2^k-1, 2^k, 2^k+1
    let boundary_max = (0..capbits, 0usize..3).prop_map(move |(k, o)| {
        let base = 1u128 << k;
        let v = match o {
            0 => base - 1,
            1 => base,
            _ => base.saturating_add(1),
        };
        v.min(cap)
    });
    let max_d = max_d.max(2);
    prop_oneof![
        // one symbol: 0, arbitrary, cap
        1 => Just(vec![0u128]),
        1 => logu.clone().prop_map(|x| vec![x]),
        1 => Just(vec![cap]),
        // two symbols
        2 => (logu.clone(), logu.clone()).prop_map(|(a, b)| vec![a, b]),
        // 0..d
        6 => (2usize..=max_d).prop_map(move |d| (0..d as u128).collect::<Vec<_>>()),
        // small dense alphabet + boundary maximum
        4 => (1usize..=max_d.min(40), boundary_max.clone())
            .prop_map(|(d, m)| { let mut v: Vec<u128> = (0..d as u128).collect(); v.push(m); v }),
        // only values near a boundary maximum
        2 => boundary_max.clone().prop_map(|m| vec![m.saturating_sub(2), m.saturating_sub(1), m]),
        // holes: d log-uniform values
        5 => proptest::collection::vec(logu.clone(), 2..=max_d.min(64)),
        // includes the type/cap maximum
        2 => proptest::collection::vec(logu.clone(), 1..=max_d.min(16))
            .prop_map(move |mut v| { v.push(cap); v }),
    ]
    .prop_map(norm)
    .boxed()
}

fn profile() -> BoxedStrategy<Profile> {
    prop_oneof![
        3 => Just(Profile::Uniform),
        2 => (1u8..=3).prop_map(Profile::Zipf),
        3 => (1u8..=7).prop_map(Profile::Geometric),
        2 => Just(Profile::Fib),
        1 => Just(Profile::OneRare),
        1 => Just(Profile::TwoFrequent),
        2 => (1u8..=5).prop_map(Profile::Ties),
        2 => Just(Profile::Deep(4)),
        2 => Just(Profile::Deep(2)),
        1 => Just(Profile::DeepChains(2)),
        1 => prop_oneof![Just(2u8), Just(3), Just(8), 2u8..40].prop_map(Profile::HeavyTied),
        1 => (prop_oneof![Just(8u8), Just(12), Just(16), Just(17), Just(18), Just(20)], prop_oneof![Just(0u16), Just(1), 0u16..300]).prop_map(|(lg, plus)| Profile::DominantAt(lg, plus)),
    ]
    .boxed()
}

fn arrangement() -> BoxedStrategy<Arr> {
    prop_oneof![
        4 => Just(Arr::Shuffled),
        1 => Just(Arr::Sorted),
        2 => (0u8..=12).prop_map(Arr::Runs),
        1 => Just(Arr::Periodic),
        1 => Just(Arr::Packed),
        2 => (any::<bool>(), 1u8..=9).prop_map(|(h, k)| Arr::Padded(h, k)),
        2 => (8u8..=13).prop_map(Arr::RunsPow2),
        3 => (0u8..4).prop_map(Arr::Aligned),
    ]
    .boxed()
}

/// index skew for explicit sequences: maps a uniform u16 to an alphabet index
#[derive(Clone, Copy, Debug, PartialEq, Eq, Hash, Serialize, Deserialize)]
pub enum Skew {
    Uniform,
    Pow(u8),
    Geo,
}

fn skew_index(x: u16, d: usize, skew: Skew) -> usize {
    let j = match skew {
        Skew::Uniform => (x as usize * d) >> 16,
        Skew::Pow(k) => {
            let u = x as f64 / 65536.0;
            (u.powi(k.clamp(2, 8) as i32) * d as f64) as usize
        }
        Skew::Geo => (x.leading_zeros() as usize).min(d - 1),
    };
    j.min(d - 1)
}

/// Explicit content (n <= max_n, kept small so that proptest can shrink element-wise).
pub fn explicit_content(cap: u128, max_d: usize, max_n: usize) -> BoxedStrategy<Content> {
    let len = prop_oneof![
        1 => Just(0usize),
        1 => Just(1usize),
        2 => 2usize..=16,
        4 => 17usize..=300,
        4 => 301usize..=max_n.max(302),
        3 => boundary_len(0, max_n),
    ]
    .prop_map(move |n| n.min(max_n));
    let skew = prop_oneof![
        3 => Just(Skew::Uniform),
        2 => (2u8..=8).prop_map(Skew::Pow),
        2 => Just(Skew::Geo),
    ];
    (alphabet(cap, max_d), len, skew, any::<u16>(), 0u8..4)
        .prop_flat_map(|(alpha, n, skew, rot, arr)| {
            (
                Just(alpha),
                proptest::collection::vec(any::<u16>(), n..=n),
                Just(skew),
                Just(rot),
                Just(arr),
            )
        })
        .prop_map(|(alpha, idx, skew, rot, arr)| {
            let d = alpha.len();
            let rot = rot as usize % d;
            let mut v: Vec<u128> = idx
                .iter()
                .map(|&x| alpha[(skew_index(x, d, skew) + rot) % d])
                .collect();
            match arr {
                1 => v.sort(),
                2 => {
                    // runs: repeat each drawn symbol for a data-dependent run length
                    let n = v.len();
                    let mut out = Vec::with_capacity(n);
                    let mut i = 0;
                    while out.len() < n {
                        let run = 1 + (idx[i] as usize % 97);
                        for _ in 0..run {
                            if out.len() < n {
                                out.push(v[i]);
                            }
                        }
                        i += 1;
                    }
                    v = out;
                }
                _ => {}
            }
            Content::Explicit(v)
        })
        .boxed()
}

/// Recipe content for n in lo..=hi.
pub fn recipe_content(cap: u128, max_d: usize, lo: usize, hi: usize) -> BoxedStrategy<Content> {
    let n = prop_oneof![
        3 => lo..=hi,
        2 => boundary_len(lo, hi),
    ];
    (n, alphabet(cap, max_d), profile(), arrangement(), any::<u64>())
        .prop_map(|(n, alphabet, profile, arr, seed)| {
            Content::Recipe(Recipe { n, alphabet, profile, arr, seed })
        })
        .boxed()
}

#[derive(Clone, Debug, PartialEq, Eq, Hash, Serialize, Deserialize)]
pub struct SeqCase {
    pub kind: TreeKind,
    pub ty: ElemTy,
    pub how: How,
    pub content: Content,
    pub tie_seed: u64,
    pub plan_seed: u64,
}

#[derive(Clone, Debug)]
pub struct SeqGenCfg {
    pub kinds: Vec<TreeKind>,
    pub types: Vec<ElemTy>,
    /// largest n of recipe cases
    pub max_n: usize,
    /// weight of recipe (large) cases out of 10
    pub large_weight: u32,
    /// cap on symbol values for Huffman kinds (table indexed by symbol)
    pub huff_cap: u128,
    /// n * levels budget
    pub work_cap: usize,
    /// smallest recipe n
    pub min_large: usize,
    /// when set: half of the recipe lengths are k*period + {-1,0,1}
    pub period_bias: Option<usize>,
    /// when set: every alphabet contains a symbol of at least this value (forces levels)
    pub min_max_symbol: Option<u128>,
}

impl SeqGenCfg {
    pub fn quick(kinds: &[TreeKind]) -> Self {
        SeqGenCfg {
            kinds: kinds.to_vec(),
            types: ElemTy::ALL.to_vec(),
            max_n: 400_000,
            large_weight: 2,
            huff_cap: 1 << 20,
            work_cap: 4_000_000,
            min_large: 5_001,
            period_bias: None,
            min_max_symbol: None,
        }
    }
    pub fn thorough(kinds: &[TreeKind]) -> Self {
        SeqGenCfg {
            max_n: 1_310_000,
            large_weight: 3,
            work_cap: 20_000_000,
            ..Self::quick(kinds)
        }
    }
}

pub fn symbol_cap(kind: TreeKind, ty: ElemTy, huff_cap: u128) -> u128 {
    if kind.is_huffman() {
        ty.max().min(huff_cap)
    } else {
        ty.max()
    }
}

pub fn seq_case(cfg: SeqGenCfg) -> BoxedStrategy<SeqCase> {
    let kinds = cfg.kinds.clone();
    let types = cfg.types.clone();
    let min_max_symbol = cfg.min_max_symbol;
    let huff_cap = cfg.huff_cap;
    (
        proptest::sample::select(kinds),
        proptest::sample::select(types),
        0u32..10,
    )
        .prop_flat_map(move |(kind, ty, w)| {
            let cap = symbol_cap(kind, ty, cfg.huff_cap);
            let max_d = 300;
            let content = if w < cfg.large_weight {
                // bound n*levels: wide plain alphabets get shorter sequences
                let levels = if kind.is_huffman() {
                    12
                } else if kind.is_quad() {
                    (ty.bits() as usize + 1) / 2
                } else {
                    ty.bits() as usize
                };
                let hi = (cfg.work_cap / levels.max(1)).clamp(cfg.min_large + 1, cfg.max_n);
                let base = recipe_content(cap, max_d, cfg.min_large, hi);
                match cfg.period_bias {
                    None => base,
                    Some(per) => {
                        let lo = cfg.min_large;
                        (base, 1usize..=(hi / per).max(1), 0usize..3, any::<bool>())
                            .prop_map(move |(c, k, d, bias)| match c {
                                Content::Recipe(mut r) if bias => {
                                    r.n = (k * per + d).saturating_sub(1).clamp(lo, hi);
                                    Content::Recipe(r)
                                }
                                other => other,
                            })
                            .boxed()
                    }
                }
            } else {
                explicit_content(cap, max_d, 5_000)
            };
            let how = prop_oneof![
                3 => Just(How::New),
                3 => Just(How::FromVec),
                3 => Just(How::Collect),
                2 => any::<u8>().prop_map(How::CollectLoose),
            ];
            (Just(kind), Just(ty), how, content, any::<u64>(), any::<u64>())
        })
        .prop_map(move |(kind, ty, how, content, tie_seed, plan_seed)| {
            let content = match (min_max_symbol, content) {
                (Some(mm), Content::Recipe(mut r)) => {
                    let cap = symbol_cap(kind, ty, huff_cap);
                    let want = mm.min(cap);
                    if r.alphabet.iter().all(|&x| x < want) {
                        r.alphabet.push(want);
                    }
                    Content::Recipe(r)
                }
                (_, c) => c,
            };
            // the empty sequence can also be obtained through Default
            let how = if content.len_hint() == 0 && plan_seed & 1 == 1 { How::Default } else { how };
            SeqCase { kind, ty, how, content, tie_seed, plan_seed }
        })
        .boxed()
}

impl SeqCase {
    /// candidates for the post-shrink delta-debugging pass
    pub fn simplify(&self) -> Vec<SeqCase> {
        let mut out = Vec::new();
        let v = match &self.content {
            Content::Explicit(v) => v.clone(),
            Content::Recipe(r) if r.n <= 200_000 => {
                let v = r.expand();
                // first candidate: the same sequence, explicit
                out.push(SeqCase { content: Content::Explicit(v.clone()), ..self.clone() });
                return out;
            }
            _ => return out,
        };
        for w in crate::runner::chunk_removals(&v, 12) {
            out.push(SeqCase { content: Content::Explicit(w), ..self.clone() });
        }
        // smaller symbol values: map the distinct symbols to their ranks
        let mut distinct = v.clone();
        distinct.sort();
        distinct.dedup();
        let ranked: Vec<u128> = v.iter().map(|x| distinct.binary_search(x).unwrap() as u128).collect();
        if ranked != v {
            out.push(SeqCase { content: Content::Explicit(ranked), ..self.clone() });
        }
        if self.how != How::New && !v.is_empty() {
            out.push(SeqCase { how: How::New, ..self.clone() });
        }
        out
    }
}

#[cfg(test)]
mod tests {
    use super::*;
    #[test]
    fn deep_chain_counts_give_two_deep_chains() {
        for n in [5_000usize, 100_000, 1_318_810, 2_000_000] {
            let c = deep_chain_counts(n, 300, 2);
            assert_eq!(c.iter().sum::<usize>(), n);
            let w: Vec<u64> = c.iter().map(|&x| x as u64).collect();
            let lens = crate::model::huffman_lengths(&w, 4);
            let max = *lens.iter().max().unwrap();
            let deepest = lens.iter().filter(|&&l| l == max).count();
            println!("n={n}: symbols {}, depth {max}, deepest leaves {deepest}, lens/level {:?}", c.len(), (1..=max).map(|l| lens.iter().filter(|&&x| x == l).count()).collect::<Vec<_>>());
            assert_eq!(deepest, 8);
        }
    }
}
