//! A case over any of the three structure families, with uniform build / check / serde / eq.
use crate::bitcheck::{check_bits, BitOpts};
use crate::bitgen::{explicit_bits, groups_content, recipe_bits};
use crate::bits::{effective_bits, BitsKind, BitsVal, WrapHow};
use crate::model::{BitModel, QuadModel, SeqModel};
use crate::props::bitsprops::{abbreviate_bits, bvhow_strategy, BitsCase};
use crate::props::quadprops::{abbreviate_quads, quad_case, QuadCase};
use crate::props::seqexact::abbreviate_seq;
use crate::quads::{check_quads, QuadHow, QuadKind, QuadOpts, QuadVal};
use crate::runner::{CheckResult, Ctx, Tier};
use crate::seqcheck::{check_tree, SeqOpts};
use crate::seqgen::{seq_case, SeqCase, SeqGenCfg};
use crate::trees::{build_tree, DynSeq, TreeKind};
use proptest::prelude::*;
use serde::{Deserialize, Serialize};
use serde_json::Value;

#[derive(Clone, Debug, PartialEq, Eq, Hash, Serialize, Deserialize)]
pub enum AnyCase {
    Seq(SeqCase),
    Bits(BitsCase),
    Quad(QuadCase),
}

pub enum AnyVal {
    Seq(Box<dyn DynSeq>, SeqModel),
    Bits(BitsVal, BitModel),
    Quad(QuadVal, QuadModel),
}

#[derive(Clone, Copy, Debug)]
pub struct AnyOpts {
    pub unchecked: bool,
    pub budget: usize,
    pub iterators: bool,
    /// bit structures: every select index is asked when the count is at most this
    pub full_select_upto: usize,
}

impl AnyOpts {
    pub fn new(unchecked: bool, budget: usize, iterators: bool) -> Self {
        AnyOpts { unchecked, budget, iterators, full_select_upto: 3000 }
    }
}

pub fn bits_case(kinds: Vec<BitsKind>, max_n: usize, max_groups: usize) -> BoxedStrategy<BitsCase> {
    (
        proptest::sample::select(kinds),
        bvhow_strategy(1),
        prop_oneof![Just(WrapHow::New), Just(WrapHow::From), Just(WrapHow::Collect)],
        prop_oneof![5 => explicit_bits(3000), 3 => recipe_bits(3001, max_n), 2 => groups_content(max_groups)],
        any::<u64>(),
    )
        .prop_map(|(kind, bvhow, wrap, content, plan_seed)| {
            let empty = matches!(&content, crate::bitgen::BitContent::Explicit(v) if v.is_empty());
            let (bvhow, wrap) = if empty && plan_seed % 3 == 0 {
                (crate::bits::BvHow::Default, if plan_seed % 2 == 0 { WrapHow::Default } else { wrap })
            } else {
                (bvhow, wrap)
            };
            BitsCase { kind, bvhow, wrap, content, plan_seed }
        })
        .boxed()
}

/// weights: trees / bit structures / quad structures
pub fn any_case(tier: Tier, w: (u32, u32, u32), tree_kinds: &[TreeKind]) -> BoxedStrategy<AnyCase> {
    let mut cfg = if tier == Tier::Quick { SeqGenCfg::quick(tree_kinds) } else { SeqGenCfg::thorough(tree_kinds) };
    cfg.max_n = cfg.max_n.min(200_000);
    let (bn, gn, qn) = if tier == Tier::Quick { (100_000, 2, 100_000) } else { (1_000_000, 4, 1_000_000) };
    prop_oneof![
        w.0 => seq_case(cfg).prop_map(AnyCase::Seq),
        w.1 => bits_case(BitsKind::ALL.to_vec(), bn, gn).prop_map(AnyCase::Bits),
        w.2 => quad_case(vec![QuadKind::Qv, QuadKind::Rs256, QuadKind::Rs512], qn).prop_map(AnyCase::Quad),
    ]
    .boxed()
}

impl AnyCase {
    pub fn build(&self) -> AnyVal {
        match self {
            AnyCase::Seq(c) => {
                let s = c.content.expand();
                let t = build_tree(c.kind, c.ty, c.how, &s, Some(c.tie_seed));
                AnyVal::Seq(t, SeqModel::new(s))
            }
            AnyCase::Bits(c) => {
                let raw = c.content.expand();
                let bits = if c.wrap == WrapHow::Default { vec![] } else { effective_bits(c.bvhow, &raw) };
                AnyVal::Bits(BitsVal::build(c.kind, c.bvhow, c.wrap, &raw), BitModel::new(bits))
            }
            AnyCase::Quad(c) => {
                let q = if c.how == QuadHow::Default { vec![] } else { c.content.expand() };
                AnyVal::Quad(QuadVal::build(c.kind, c.how, &q, c.salt), QuadModel::new(q))
            }
        }
    }
    pub fn plan_seed(&self) -> u64 {
        match self {
            AnyCase::Seq(c) => c.plan_seed,
            AnyCase::Bits(c) => c.plan_seed,
            AnyCase::Quad(c) => c.plan_seed,
        }
    }
    pub fn type_name(&self) -> String {
        match self {
            AnyCase::Seq(c) => format!("{}<{}>", c.kind.name(), c.ty.name()),
            AnyCase::Bits(c) => c.kind.name().to_string(),
            AnyCase::Quad(c) => c.kind.name().to_string(),
        }
    }
    pub fn sample(&self) -> Value {
        match self {
            AnyCase::Seq(c) => abbreviate_seq(c),
            AnyCase::Bits(c) => abbreviate_bits(c),
            AnyCase::Quad(c) => abbreviate_quads(c),
        }
    }
    pub fn simplify(&self) -> Vec<AnyCase> {
        match self {
            AnyCase::Seq(c) => c.simplify().into_iter().map(AnyCase::Seq).collect(),
            AnyCase::Bits(c) => crate::bitgen::simplify_bits(&c.content).into_iter().map(|content| AnyCase::Bits(BitsCase { content, ..c.clone() })).collect(),
            AnyCase::Quad(c) => crate::quads::simplify_quads(&c.content).into_iter().map(|content| AnyCase::Quad(QuadCase { content, ..c.clone() })).collect(),
        }
    }
}

impl AnyVal {
    pub fn n(&self) -> usize {
        match self {
            AnyVal::Seq(_, m) => m.n(),
            AnyVal::Bits(_, m) => m.n(),
            AnyVal::Quad(_, m) => m.n(),
        }
    }
    /// full differential check against the model; answers are absorbed into ctx.transcript
    pub fn check(&self, seed: u64, o: AnyOpts, ctx: &mut Ctx) -> CheckResult {
        match self {
            AnyVal::Seq(t, m) => check_tree(t.as_ref(), m, seed, SeqOpts { prefetch: true, unchecked: o.unchecked, budget: o.budget, full_get_upto: 2000 }, ctx),
            AnyVal::Bits(v, m) => check_bits(v, m, seed, BitOpts { unchecked: o.unchecked, budget: o.budget, iterators: o.iterators && m.n() <= 400_000, words: true, full_select_upto: o.full_select_upto }, ctx),
            AnyVal::Quad(v, m) => check_quads(v, m, seed, QuadOpts { unchecked: o.unchecked, budget: o.budget, iterators: o.iterators && m.n() <= 400_000, all_samples: false }, ctx),
        }
    }
    pub fn ser(&self) -> Result<Vec<u8>, String> {
        match self {
            AnyVal::Seq(t, _) => t.ser(),
            AnyVal::Bits(v, _) => v.ser(),
            AnyVal::Quad(v, _) => v.ser(),
        }
    }
    /// deserializes `bytes` as the same concrete type, paired with the same model
    pub fn de_same(&self, bytes: &[u8]) -> Result<AnyVal, String> {
        Ok(match self {
            AnyVal::Seq(t, m) => AnyVal::Seq(t.de_same(bytes)?, m.clone()),
            AnyVal::Bits(v, m) => AnyVal::Bits(v.de_same(bytes)?, m.clone()),
            AnyVal::Quad(v, m) => AnyVal::Quad(v.de_same(bytes)?, m.clone()),
        })
    }
    pub fn clone_val(&self) -> AnyVal {
        match self {
            AnyVal::Seq(t, m) => AnyVal::Seq(t.clone_box(), m.clone()),
            AnyVal::Bits(v, m) => AnyVal::Bits(v.clone(), m.clone()),
            AnyVal::Quad(v, m) => AnyVal::Quad(v.clone(), m.clone()),
        }
    }
    /// a clone of `donor` overwritten with `clone_from(self)`, paired with self's model
    pub fn clone_from_into(&self, donor: &AnyVal) -> Option<AnyVal> {
        match (self, donor) {
            (AnyVal::Seq(a, m), AnyVal::Seq(d, _)) => a.clone_from_into(d.as_ref()).map(|t| AnyVal::Seq(t, m.clone())),
            (AnyVal::Bits(a, m), AnyVal::Bits(d, _)) => a.clone_from_into(d).map(|t| AnyVal::Bits(t, m.clone())),
            (AnyVal::Quad(a, m), AnyVal::Quad(d, _)) => a.clone_from_into(d).map(|t| AnyVal::Quad(t, m.clone())),
            _ => None,
        }
    }
    pub fn eq_val(&self, other: &AnyVal) -> bool {
        match (self, other) {
            (AnyVal::Seq(a, _), AnyVal::Seq(b, _)) => a.eq_dyn(b.as_ref()),
            (AnyVal::Bits(a, _), AnyVal::Bits(b, _)) => a == b,
            (AnyVal::Quad(a, _), AnyVal::Quad(b, _)) => a == b,
            _ => false,
        }
    }
    pub fn space_usage_byte(&self) -> usize {
        match self {
            AnyVal::Seq(t, _) => t.space_usage_byte(),
            AnyVal::Bits(v, _) => v.space_usage_byte(),
            AnyVal::Quad(v, _) => v.space_usage_byte(),
        }
    }
    pub fn space_scaled(&self) -> (f64, f64, f64) {
        match self {
            AnyVal::Seq(t, _) => t.space_scaled(),
            AnyVal::Bits(v, _) => v.space_scaled(),
            AnyVal::Quad(v, _) => v.space_scaled(),
        }
    }
    pub fn size_of_val(&self) -> usize {
        match self {
            AnyVal::Seq(t, _) => t.size_of_val(),
            AnyVal::Bits(v, _) => v.size_of_val(),
            AnyVal::Quad(v, _) => v.size_of_val(),
        }
    }
    pub fn is_huffman(&self) -> bool {
        matches!(self, AnyVal::Seq(t, _) if t.kind().is_huffman())
    }
}
