use qv::runner::{draw, replay_prop, run_prop, Prop, RunOpts, Tier};
use qv::with_prop;
use serde_json::json;
use std::collections::HashMap;

#[global_allocator]
static GLOBAL: qv::alloc::Counting = qv::alloc::Counting;

fn parse_args() -> (String, HashMap<String, String>) {
    let mut args = std::env::args().skip(1);
    let cmd = args.next().unwrap_or_else(|| "help".into());
    let mut m = HashMap::new();
    let rest: Vec<String> = args.collect();
    let mut i = 0;
    while i < rest.len() {
        let k = rest[i].trim_start_matches("--").to_string();
        if i + 1 < rest.len() && !rest[i + 1].starts_with("--") {
            m.insert(k, rest[i + 1].clone());
            i += 2;
        } else {
            m.insert(k, "1".into());
            i += 1;
        }
    }
    (cmd, m)
}

fn tier_of(m: &HashMap<String, String>) -> Tier {
    match m.get("tier").map(|s| s.as_str()) {
        Some("thorough") => Tier::Thorough,
        _ => Tier::Quick,
    }
}

fn main() {
    qv::util::install_quiet_panic_hook();
    let (cmd, m) = parse_args();
    let prop = m.get("prop").cloned().unwrap_or_default();
    let build = m
        .get("build")
        .cloned()
        .unwrap_or_else(|| option_env!("QV_BUILD").unwrap_or("fast").to_string());
    match cmd.as_str() {
        "info" => {
            let tier = tier_of(&m);
            with_prop!(prop.as_str(), p => {
                let builds = p.builds(tier);
                let cases: Vec<u32> = builds.iter().map(|b| p.cases(tier, b)).collect();
                let pairs: Vec<Vec<&str>> = p.transcript_pairs().iter().map(|(a, b)| vec![*a, *b]).collect();
                println!("{}", json!({"property": p.id(), "builds": builds, "cases": cases, "rule": p.rule(),
                    "transcript_pairs": pairs, "pre_steps": p.pre_steps(), "assumptions": p.assumptions()}));
            })
        }
        "run" => {
            let o = RunOpts {
                tier: tier_of(&m),
                build: build.clone(),
                seed: m.get("seed").and_then(|s| s.parse().ok()).unwrap_or(1),
                shard: m.get("shard").and_then(|s| s.parse().ok()).unwrap_or(0),
                nshards: m.get("nshards").and_then(|s| s.parse().ok()).unwrap_or(1),
                cases: m.get("cases").and_then(|s| s.parse().ok()).unwrap_or(100),
                out: m.get("out").cloned().unwrap_or_else(|| "/dev/stdout".into()),
                status: m.get("status").cloned(),
                dump_index: m.get("dump-index").and_then(|s| s.parse().ok()),
                dump_to: m.get("dump-to").cloned(),
            };
            with_prop!(prop.as_str(), p => {
                let v = run_prop(p, &o);
                std::fs::write(&o.out, serde_json::to_string(&v).unwrap()).unwrap();
            })
        }
        "replay" => {
            let text = std::fs::read_to_string(m.get("file").expect("--file")).expect("read replay file");
            let strict = m.contains_key("strict");
            with_prop!(prop.as_str(), p => {
                let (ok, msg) = replay_prop(p, &text, &build, strict);
                println!("{} {}", if ok { "HELD" } else { "FAILED" }, msg);
                std::process::exit(if ok { 0 } else { 1 });
            })
        }
        "candidates" => {
            let text = std::fs::read_to_string(m.get("file").expect("--file")).expect("read file");
            with_prop!(prop.as_str(), p => {
                for line in qv::runner::candidates_of(p, &text, &build) {
                    println!("{line}");
                }
            })
        }
        "draw" => {
            let count = m.get("count").and_then(|s| s.parse().ok()).unwrap_or(5);
            let seed = m.get("seed").and_then(|s| s.parse().ok()).unwrap_or(1);
            with_prop!(prop.as_str(), p => {
                for c in draw(p, tier_of(&m), seed, count) {
                    println!("{}", p.sample(&c));
                }
            })
        }
        _ => {
            eprintln!("usage: qvcheck info|run|replay|draw --prop ID ...");
            std::process::exit(2);
        }
    }
}
