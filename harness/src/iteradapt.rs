//! Provided `Iterator` methods (`nth`, `skip`, `step_by`, `last`, `count`, `fold`, `for_each`) checked
//! on the CONCRETE iterator types: through `Box<dyn Iterator>` only `next`, `nth` and `size_hint`
//! reach an iterator's own overrides, `count` / `fold` / `last` would silently use the defaults.
use crate::runner::{CheckResult, Ctx};
use crate::util::note;
use crate::{ensure, fail};

/// provided adapter methods (`nth`, `skip`, `step_by`, `last`, `count`) on a single-ended iterator
/// must behave as the default implementations do on the indexed sequence
pub fn check_adapters<X: PartialEq + Copy + std::fmt::Debug, I: Iterator<Item = X>>(mk: impl Fn() -> I, e: &[X], seed: u64, who: &str, ctx: &mut Ctx) -> CheckResult {
    let n = e.len();
    let mut r = crate::util::Rng::new(seed);
    let mut ks = vec![0usize, 1, 2, n.saturating_sub(1), n, n + 1, n + 7, 2 * n + 3];
    for _ in 0..4 {
        ks.push(r.below_usize(n + 2));
    }
    for &k in &ks {
        note("iter.nth", k as u128, 0, 0);
        let mut it = mk();
        let g = it.nth(k);
        ensure!(g == e.get(k).copied(), "{who}: nth({k}) = {:?}, expected {:?} (n = {n})", g, e.get(k));
        // continuing after nth
        let g2 = it.next();
        let e2 = if k < n { e.get(k + 1).copied() } else { None };
        ensure!(g2 == e2, "{who}: next() after nth({k}) = {:?}, expected {:?} (n = {n})", g2, e2);
        note("iter.skip", k as u128, 0, 0);
        let got: Vec<X> = mk().skip(k).take(3).collect();
        let exp: Vec<X> = e.iter().copied().skip(k).take(3).collect();
        ensure!(got == exp, "{who}: skip({k}) yields {:?}.., expected {:?}.. (n = {n})", got, exp);
        ctx.q();
    }
    for s in [1usize, 2, 3, 4, 7, 64, n.max(1), n + 1, 1 + r.below_usize(n + 1)] {
        note("iter.step_by", s as u128, 0, 0);
        let got: Vec<X> = mk().step_by(s).take(n / s + 6).collect();
        let exp: Vec<X> = e.iter().copied().step_by(s).collect();
        ensure!(got == exp, "{who}: step_by({s}) yields {} items (first difference at {:?}), expected {} (n = {n})", got.len(), got.iter().zip(exp.iter()).position(|(a, b)| a != b), exp.len());
        ctx.q();
    }
    // partially consumed iterator handed to fold-based consumers
    for &k in &[1usize, 3, 255, 256, 257, n / 2, n.saturating_sub(2)] {
        if k > n || n > 200_000 {
            continue;
        }
        note("iter.for_each after next", k as u128, 0, 0);
        let mut it = mk();
        for _ in 0..k {
            it.next();
        }
        let mut rest: Vec<X> = Vec::new();
        it.for_each(|x| rest.push(x));
        ensure!(rest[..] == e[k..], "{who}: for_each after {k} next() calls yields {} items (first difference at {:?}), expected {} (n = {n})", rest.len(), rest.iter().zip(e[k..].iter()).position(|(a, b)| a != b), n - k);
        let mut it = mk();
        for _ in 0..k {
            it.next();
        }
        ensure!(it.count() == n - k, "{who}: count() after {k} next() calls != {}", n - k);
        let mut it = mk();
        for _ in 0..k {
            it.next();
        }
        let l = it.last();
        ensure!(l == if k < n { e.last().copied() } else { None }, "{who}: last() after {k} next() calls = {:?}", l);
        let folded = mk().skip(k).fold(0usize, |a, _| a + 1);
        ensure!(folded == n - k, "{who}: skip({k}).fold counts {folded}, expected {}", n - k);
        ctx.q();
    }
    if n <= 100_000 {
        note("iter.count/last", 0, 0, 0);
        ensure!(mk().count() == n, "{who}: count() = {}, expected {n}", mk().count());
        ensure!(mk().last() == e.last().copied(), "{who}: last() = {:?}, expected {:?}", mk().last(), e.last());
    }
    Ok(())
}


#[allow(dead_code)]
fn unreachable_fail() -> CheckResult {
    fail!("unreachable")
}
