//! C18: queries are pure and structures can be shared across threads.
use crate::anycase::{any_case, AnyCase, AnyOpts, AnyVal};
use crate::runner::{CheckResult, Ctx, Failure, Prop, Tier};
use crate::trees::TreeKind;
use crate::util::mix;
use crate::{ensure, fail};
use proptest::prelude::*;
use serde::{Deserialize, Serialize};
use serde_json::{json, Value};
use std::sync::Barrier;

#[derive(Clone, Debug, PartialEq, Eq, Hash, Serialize, Deserialize)]
pub struct ThreadCase {
    pub base: AnyCase,
    pub threads: u8,
    /// batches per thread
    pub rounds: u8,
    /// per-batch sampling budget (queries per symbol / position)
    pub budget: u8,
}

pub struct C18;

/// The value is shared by reference between scoped threads. The compile-time probe (pre-step
/// `autotraits`) has already established that the qwt types are Send + Sync; the boxed adapters
/// erase that fact, hence this wrapper. The check is not run when the probe fails.
struct Shared<'a>(&'a AnyVal);
unsafe impl Sync for Shared<'_> {}
unsafe impl Send for Shared<'_> {}

impl Prop for C18 {
    type Case = ThreadCase;
    fn id(&self) -> &'static str { "C18" }
    fn pre_steps(&self) -> Vec<&'static str> { vec!["autotraits"] }
    fn builds(&self, _tier: Tier) -> Vec<&'static str> { vec!["fast"] }
    fn strategy(&self, tier: Tier, _b: &str) -> BoxedStrategy<ThreadCase> {
        let max_bits: usize = if tier == Tier::Quick { 400_000 } else { 3_000_000 };
        // immutable query structures: trees, RS vectors, DArray, BitVector, QVector
        let base = any_case(tier, (6, 3, 2), &TreeKind::ALL).prop_filter_map("BitVectorMut is not a query structure", |c| match &c {
            AnyCase::Bits(b) if b.kind == crate::bits::BitsKind::Bvm => None,
            _ => Some(c),
        });
        // structures whose queries scan long stretches (hidden per-query state would show here):
        // DArray / RSNarrow / RSWide over runs of several thousand equal bits and over very sparse bits
        let long_runs = (proptest::sample::select(vec![crate::bits::BitsKind::Da1, crate::bits::BitsKind::Da0, crate::bits::BitsKind::Narrow, crate::bits::BitsKind::Wide]),
            prop_oneof![
                2 => (20_000usize..=max_bits, 12u8..=15, 12u8..=15, any::<u64>()).prop_map(|(n, zero_lg, one_lg, seed)| crate::bitgen::BitContent::Runs { n, zero_lg, one_lg, seed }),
                3 => (prop_oneof![Just(9000u32), Just(8192), Just(8200), 8000u32..12_000], prop_oneof![Just(0u32), 8000u32..12_000], 1u16..=3, prop_oneof![Just(0u8), Just(3)], any::<u64>())
                    .prop_map(|(a, d, periods, jitter, seed)| crate::bitgen::BitContent::PeriodicRuns { one_len: a, zero_len: if d == 0 { a } else { d }, periods, jitter, seed }),
                1 => (140_000usize..=max_bits.max(140_001), prop_oneof![Just(16u32), Just(64), Just(400)], any::<u64>()).prop_map(|(n, num, seed)| crate::bitgen::BitContent::Density { n, num, seed }),
                1 => (140_000usize..=max_bits.max(140_001), prop_oneof![Just(65520u32), Just(65472), Just(65136)], any::<u64>()).prop_map(|(n, num, seed)| crate::bitgen::BitContent::Density { n, num, seed }),
            ], any::<u64>())
            .prop_map(|(kind, content, plan_seed)| AnyCase::Bits(crate::props::bitsprops::BitsCase { kind, bvhow: crate::bits::BvHow::Bools, wrap: crate::bits::WrapHow::New, content, plan_seed }));
        // structures over more than 2^20 symbols (state that is only created for large inputs)
        let big = (proptest::sample::select(vec![0u8, 1, 2, 3]), (1usize << 20) + 1..=(1usize << 20) + 300_000, [1u16..1000, 0u16..1000, 0u16..1000, 0u16..1000], any::<u64>(), any::<u64>())
            .prop_map(|(k, n, w, seed, plan_seed)| match k {
                0 => AnyCase::Quad(crate::props::quadprops::QuadCase { kind: crate::quads::QuadKind::Rs256, how: crate::quads::QuadHow::FromQVector(crate::quads::IntTy::U8), content: crate::quads::QuadContent::Weighted { n, w, seed }, salt: 0, plan_seed }),
                1 => AnyCase::Quad(crate::props::quadprops::QuadCase { kind: crate::quads::QuadKind::Rs512, how: crate::quads::QuadHow::Collect(crate::quads::IntTy::U8), content: crate::quads::QuadContent::Weighted { n, w, seed }, salt: 0, plan_seed }),
                _ => AnyCase::Seq(crate::seqgen::SeqCase {
                    kind: if k == 2 { TreeKind::Qwt256 } else { TreeKind::Hqwt512Pfs }, ty: crate::elem::ElemTy::U8, how: crate::trees::How::FromVec,
                    content: crate::seqgen::Content::Recipe(crate::seqgen::Recipe { n, alphabet: (0..(16 + (seed % 40) as u128)).collect(), profile: crate::seqgen::Profile::Zipf(1), arr: crate::seqgen::Arr::Shuffled, seed }),
                    tie_seed: seed, plan_seed }),
            });
        let big_weight = if tier == Tier::Quick { 1 } else { 2 };
        let base = prop_oneof![40 => base, 8 => long_runs, big_weight => big];
        (base, prop_oneof![2 => 2u8..=4, 3 => 4u8..=8, 2 => 8u8..=16], 1u8..=3, prop_oneof![Just(8u8), Just(20), Just(40)])
            .prop_map(|(base, threads, rounds, budget)| ThreadCase { base, threads, rounds, budget })
            .boxed()
    }
    fn cases(&self, tier: Tier, _build: &str) -> u32 {
        if tier == Tier::Quick { 4_000 } else { 30_000 }
    }
    /// Huffman trees with the deepest code shapes (one chain of 16 levels; two chains of 13
    /// levels whose codes differ in the first digit): per-query state keyed by a code word
    fn fixed_cases(&self, tier: Tier) -> Vec<ThreadCase> {
        crate::props::seqexact::deep_code_cases("C02", tier)
            .into_iter()
            .enumerate()
            .filter(|(i, _)| *i != 1)
            .map(|(_, c)| ThreadCase { base: AnyCase::Seq(c), threads: 4, rounds: 1, budget: 8 })
            .collect()
    }
    fn assumptions(&self) -> Vec<String> {
        vec!["thread interleavings are chosen by the OS scheduler: sampled, not enumerated".into()]
    }
    fn rule(&self) -> &'static str {
        "pre-step: a separate crate asserting Send + Sync for every public query structure must compile; cases = (any immutable structure from the shared generators, 2..=16 threads, 1..=3 batches per thread); sequentially: the bincode serialization must be byte-identical before and after all batches and a batch repeated after unrelated batches must give the same digest; concurrently (std::thread::scope, start barrier): every thread's per-batch digest (each answer also compared with the model) must equal the digest computed by a single thread, including one batch that all threads run simultaneously; non-trivial = >= 4 threads on a value with n > 4096; distinct = hash of the whole case"
    }
    fn sample(&self, c: &ThreadCase) -> Value {
        json!({"base": c.base.sample(), "threads": c.threads, "rounds": c.rounds, "budget": c.budget})
    }
    fn simplify(&self, c: &ThreadCase) -> Vec<ThreadCase> {
        c.base.simplify().into_iter().map(|base| ThreadCase { base, ..c.clone() }).collect()
    }
    fn run(&self, c: &ThreadCase, ctx: &mut Ctx) -> CheckResult {
        let v = c.base.build();
        let who = c.base.type_name();
        ctx.label(&who);
        ctx.label(&format!("threads={}", match c.threads { 2..=3 => "2-3", 4..=7 => "4-7", _ => "8-16" }));
        let n = v.n();
        ctx.nontrivial = c.threads >= 4 && n > 4096;
        let o = AnyOpts { full_select_upto: 40_000, ..AnyOpts::new(false, c.budget as usize, n <= 20_000) };
        let base_seed = c.base.plan_seed();
        let seed_of = |t: usize, r: usize| mix(base_seed, (t * 1000 + r) as u64);
        let shared_seed = mix(base_seed, 0xABCDEF);
        let vref = c.base.build();
        let digest = |seed: u64| -> Result<(u64, u64), Failure> {
            let mut c2 = Ctx::default();
            vref.check(seed, o, &mut c2)?;
            Ok((c2.transcript, c2.queries))
        };
        // ---- sequential reference + purity, on a second value built from the same case: the value
        // the threads share has never been queried or serialized when they start (lazily initialised
        // state must be safe under concurrent first use)
        let before = vref.ser().map_err(|e| Failure::new(format!("{who}: serialize failed: {e}")))?;
        let threads = c.threads as usize;
        let rounds = c.rounds as usize;
        let mut reference = vec![vec![0u64; rounds]; threads];
        for t in 0..threads {
            for r in 0..rounds {
                let (d, q) = digest(seed_of(t, r))?;
                reference[t][r] = d;
                ctx.queries += q;
            }
        }
        let (shared_ref, _) = digest(shared_seed)?;
        // a batch repeated after unrelated batches
        let (again, _) = digest(seed_of(0, 0))?;
        ensure!(again == reference[0][0], "{who}: the same batch of queries gave different answers when repeated after other queries");
        let after = vref.ser().map_err(|e| Failure::new(format!("{who}: serialize failed: {e}")))?;
        ensure!(before == after, "{who}: the serialized form changed after running queries ({} bytes before, {} after)", before.len(), after.len());

        // ---- concurrent
        let barrier = Barrier::new(threads);
        let sh = Shared(&v);
        let results: Vec<Result<Vec<u64>, String>> = std::thread::scope(|scope| {
            let handles: Vec<_> = (0..threads)
                .map(|t| {
                    let barrier = &barrier;
                    let sh = &sh;
                    scope.spawn(move || {
                        crate::util::catch(|| {
                            barrier.wait();
                            let mut out = Vec::new();
                            // all threads start with the same batch (maximal overlap), then their own
                            let mut c2 = Ctx::default();
                            sh.0.check(shared_seed, o, &mut c2).map_err(|e| e.msg)?;
                            out.push(c2.transcript);
                            for r in 0..rounds {
                                let mut c3 = Ctx::default();
                                sh.0.check(seed_of(t, r), o, &mut c3).map_err(|e| e.msg)?;
                                out.push(c3.transcript);
                            }
                            Ok::<Vec<u64>, String>(out)
                        })
                        .unwrap_or_else(|p| Err(format!("panic in thread: {p}")))
                    })
                })
                .collect();
            handles.into_iter().map(|h| h.join().unwrap_or_else(|_| Err("thread died".into()))).collect()
        });
        for (t, r) in results.into_iter().enumerate() {
            match r {
                Err(e) => fail!("{who}: thread {t} of {threads}: {e}"),
                Ok(ds) => {
                    ensure!(ds[0] == shared_ref, "{who}: thread {t} of {threads}: answers to the shared batch differ from the single-threaded answers");
                    for rr in 0..rounds {
                        ensure!(ds[rr + 1] == reference[t][rr], "{who}: thread {t} of {threads}, batch {rr}: answers differ from the single-threaded answers");
                    }
                }
            }
        }
        let after2 = v.ser().map_err(|e| Failure::new(format!("{who}: serialize failed: {e}")))?;
        ensure!(before == after2, "{who}: the serialized form of the value queried concurrently differs from that of an identically built value ({} vs {} bytes)", after2.len(), before.len());
        Ok(())
    }
}
