//! C08: BitVectorMut / BitVector behave as a plain sequence of bits under any operation history.
use crate::bitcheck::{check_bits, BitOpts};
use crate::bits::BitsVal;
use crate::model::BitModel;
use crate::runner::{CheckResult, Ctx, Prop, Tier};
use crate::util::note;
use crate::{ensure, fail};
use proptest::prelude::*;
use qwt::{BitVector, BitVectorMut};
use serde::{Deserialize, Serialize};
use serde_json::{json, Value};

#[derive(Clone, Debug, PartialEq, Eq, Hash, Serialize, Deserialize)]
pub enum BvmStart {
    New,
    Default,
    WithCapacity(usize),
    WithZeros(usize),
    CollectBools(Vec<bool>),
    /// positions in any order, possibly repeated
    CollectPositions(Vec<u16>),
    /// the same positions (any order, possibly repeated) collected into an immutable BitVector
    /// (as u32 values if the flag is set), then `into()` BitVectorMut
    CollectPositionsImmutable(Vec<u16>, bool),
    /// bools collected into an immutable BitVector, then `into()` BitVectorMut
    CollectBoolsImmutable(Vec<bool>),
}

#[derive(Clone, Debug, PartialEq, Eq, Hash, Serialize, Deserialize)]
pub enum BvmOp {
    Push(bool),
    PushRun(bool, u16),
    /// the low `len` bits of `bits` (masked by the interpreter, so the precondition holds)
    AppendBits { bits: u64, len: u8 },
    ExtendWithZeros(u16),
    /// index = frac * len >> 16 (skipped on an empty vector)
    Set { frac: u16, bit: bool },
    /// start = frac * (n - len + 1) >> 16, len clamped to n
    SetBits { frac: u16, len: u8, bits: u64 },
    ExtendBools(Vec<bool>),
    /// positions relative to the current length: pos = v * (n + slack) >> 16
    ExtendPositions { fracs: Vec<u16>, slack: u16 },
    IntoImmutableAndBack,
    ReplaceByClone,
    RebuildFromIter,
    ShrinkToFit,
    /// `dst.clone_from(&bv); bv = dst` where dst holds `dst_len` bits (ones if `dst_ones`)
    CloneFromInto { dst_len: u16, dst_ones: bool },
    /// `extend` from a bool iterator with an inexact size hint (`loose::loose_iter`)
    ExtendLoose { bools: Vec<bool>, mode: u8 },
    /// `extend` with `len` pseudo-random bits in one call (one bit in `2^sparse_lg` set), from an
    /// exact (mode % 4 == 0) or loose iterator: single calls of more than 2^18 bits
    ExtendPattern { seed: u64, len: u32, sparse_lg: u8, mode: u8 },
    /// `extend` with positions from an iterator with an inexact size hint
    ExtendPositionsLoose { fracs: Vec<u16>, slack: u16, mode: u8 },
    /// the bits collected into a new BitVectorMut through a loose iterator
    RebuildFromLooseIter(u8),
    /// the bits collected into a BitVector through a loose iterator, then `into()` BitVectorMut
    ViaLooseBitVector(u8),
    /// `let src: BitVector = bv.into(); dst.clone_from(&src); bv = dst.into()` where dst is an
    /// immutable BitVector of `dst_len` bits (ones if `dst_ones`)
    ImmutableCloneFromInto { dst_len: u16, dst_ones: bool },
}

#[derive(Clone, Debug, PartialEq, Eq, Hash, Serialize, Deserialize)]
pub struct BvmCase {
    pub start: BvmStart,
    pub ops: Vec<BvmOp>,
    pub plan_seed: u64,
}

pub struct C08;

fn mask(bits: u64, len: usize) -> u64 {
    if len >= 64 { bits } else { bits & ((1u64 << len) - 1) }
}

fn bools(max: usize) -> BoxedStrategy<Vec<bool>> {
    prop_oneof![
        3 => proptest::collection::vec(any::<bool>(), 0..max.min(70)),
        2 => proptest::collection::vec(any::<bool>(), 0..max),
        1 => (any::<bool>(), 0..max).prop_map(|(b, n)| vec![b; n]),
    ]
    .boxed()
}

impl Prop for C08 {
    type Case = BvmCase;
    fn id(&self) -> &'static str { "C08" }
    fn strategy(&self, tier: Tier, _b: &str) -> BoxedStrategy<BvmCase> {
        let maxops = if tier == Tier::Quick { 120 } else { 600 };
        let big_extend: u32 = if tier == Tier::Quick { 300_000 } else { 1_100_000 };
        let start = prop_oneof![
            3 => Just(BvmStart::New),
            1 => Just(BvmStart::Default),
            2 => prop_oneof![Just(0usize), 0usize..3000, Just(512usize), Just(64)].prop_map(BvmStart::WithCapacity),
            2 => prop_oneof![Just(0usize), 0usize..1500, Just(512usize), Just(511), Just(513), Just(64), Just(1024)].prop_map(BvmStart::WithZeros),
            2 => bools(700).prop_map(BvmStart::CollectBools),
            2 => proptest::collection::vec(0u16..1400, 0..60).prop_map(BvmStart::CollectPositions),
            2 => (proptest::collection::vec(prop_oneof![3 => 0u16..1400, 1 => 0u16..40], 0..60), any::<bool>()).prop_map(|(p, w)| BvmStart::CollectPositionsImmutable(p, w)),
            1 => bools(700).prop_map(BvmStart::CollectBoolsImmutable),
        ];
        let len64 = prop_oneof![4 => 0u8..=64, 2 => Just(64u8), 1 => Just(63u8), 1 => Just(1u8)];
        let word = prop_oneof![3 => any::<u64>(), 1 => Just(u64::MAX), 1 => Just(0u64), 1 => Just(1u64 << 63)];
        let op = prop_oneof![
            4 => any::<bool>().prop_map(BvmOp::Push),
            2 => (any::<bool>(), prop_oneof![1u16..200, Just(63u16), Just(64), Just(65), Just(511), Just(512), Just(513)]).prop_map(|(b, c)| BvmOp::PushRun(b, c)),
            4 => (word.clone(), len64.clone()).prop_map(|(bits, len)| BvmOp::AppendBits { bits, len }),
            2 => prop_oneof![0u16..1500, Just(512u16), Just(64), Just(0)].prop_map(BvmOp::ExtendWithZeros),
            5 => (any::<u16>(), any::<bool>()).prop_map(|(frac, bit)| BvmOp::Set { frac, bit }),
            5 => (any::<u16>(), len64, word).prop_map(|(frac, len, bits)| BvmOp::SetBits { frac, len, bits }),
            2 => bools(300).prop_map(BvmOp::ExtendBools),
            2 => (proptest::collection::vec(any::<u16>(), 0..20), prop_oneof![Just(0u16), Just(1), 0u16..1500]).prop_map(|(fracs, slack)| BvmOp::ExtendPositions { fracs, slack }),
            1 => Just(BvmOp::IntoImmutableAndBack),
            1 => Just(BvmOp::ReplaceByClone),
            1 => Just(BvmOp::RebuildFromIter),
            1 => Just(BvmOp::ShrinkToFit),
            2 => (prop_oneof![0u16..3000, Just(512u16), Just(1024), Just(0)], any::<bool>()).prop_map(|(dst_len, dst_ones)| BvmOp::CloneFromInto { dst_len, dst_ones }),
            2 => (bools(600), any::<u8>()).prop_map(|(bools, mode)| BvmOp::ExtendLoose { bools, mode }),
            1 => (any::<u64>(), prop_oneof![9 => 0u32..3000, 1 => prop_oneof![Just(262_144u32), Just(262_145), 262_000u32..=263_000, 262_145u32..=big_extend]], 0u8..=10, any::<u8>())
                .prop_map(|(seed, len, sparse_lg, mode)| BvmOp::ExtendPattern { seed, len, sparse_lg, mode }),
            1 => (proptest::collection::vec(any::<u16>(), 0..20), prop_oneof![Just(0u16), Just(1), 0u16..1500], any::<u8>()).prop_map(|(fracs, slack, mode)| BvmOp::ExtendPositionsLoose { fracs, slack, mode }),
            1 => any::<u8>().prop_map(BvmOp::RebuildFromLooseIter),
            1 => any::<u8>().prop_map(BvmOp::ViaLooseBitVector),
            2 => (prop_oneof![0u16..3000, Just(512u16), Just(1024), Just(0)], any::<bool>()).prop_map(|(dst_len, dst_ones)| BvmOp::ImmutableCloneFromInto { dst_len, dst_ones }),
        ];
        let nops = prop_oneof![3 => 0usize..=12, 3 => 0usize..=maxops / 3, 1 => 0usize..=maxops];
        (start, nops.prop_flat_map(move |k| proptest::collection::vec(op.clone(), k..=k)), any::<u64>())
            .prop_map(|(start, ops, plan_seed)| BvmCase { start, ops, plan_seed })
            .boxed()
    }
    fn cases(&self, tier: Tier, build: &str) -> u32 {
        match (tier, build) {
            (Tier::Quick, "fast") => 48_000,
            (Tier::Quick, "asan") => 4_000,
            (Tier::Quick, _) => 18_000,
            (Tier::Thorough, "fast") => 240_000,
            (Tier::Thorough, "asan") => 30_000,
            (Tier::Thorough, _) => 60_000,
        }
    }
    fn builds(&self, _tier: Tier) -> Vec<&'static str> { vec!["fast", "checked", "asan"] }
    fn rule(&self) -> &'static str {
        "cases = operation histories over BitVectorMut (start: new/default/with_capacity/with_zeros/collect of bools or positions; ops: push, push runs, append_bits, extend_with_zeros, set, set_bits, extend with bools, extend with positions, into BitVector and back, clone, rebuild from iter, shrink_to_fit), all arguments constructed inside the documented preconditions; non-trivial = a set/set_bits that overwrites at least one 1 bit or an extend-with-positions into the interior, and final length > 64; distinct = hash of the history"
    }
    fn sample(&self, c: &BvmCase) -> Value {
        let s = format!("{:?}", c.ops);
        json!({"start": format!("{:?}", c.start).chars().take(80).collect::<String>(), "n_ops": c.ops.len(), "ops": s[..s.len().min(400)].to_string()})
    }
    fn simplify(&self, c: &BvmCase) -> Vec<BvmCase> {
        let mut v: Vec<BvmCase> = crate::runner::chunk_removals(&c.ops, 10).into_iter().map(|ops| BvmCase { ops, ..c.clone() }).collect();
        if c.start != BvmStart::New {
            v.push(BvmCase { start: BvmStart::New, ..c.clone() });
        }
        v
    }
    fn run(&self, c: &BvmCase, ctx: &mut Ctx) -> CheckResult {
        let mut m: Vec<bool> = Vec::new();
        let mut bv: BitVectorMut = match &c.start {
            BvmStart::New => BitVectorMut::new(),
            BvmStart::Default => BitVectorMut::default(),
            BvmStart::WithCapacity(n) => BitVectorMut::with_capacity(*n),
            BvmStart::WithZeros(n) => {
                m = vec![false; *n];
                BitVectorMut::with_zeros(*n)
            }
            BvmStart::CollectBools(b) => {
                m = b.clone();
                b.iter().copied().collect()
            }
            BvmStart::CollectPositionsImmutable(p, wide) => {
                for &x in p {
                    let x = x as usize;
                    if x >= m.len() {
                        m.resize(x + 1, false);
                    }
                    m[x] = true;
                }
                let im: BitVector = if *wide { p.iter().map(|&x| x as u32).collect() } else { p.iter().map(|&x| x as usize).collect() };
                im.into()
            }
            BvmStart::CollectBoolsImmutable(b) => {
                m = b.clone();
                let im: BitVector = b.iter().copied().collect();
                im.into()
            }
            BvmStart::CollectPositions(p) => {
                for &x in p {
                    let x = x as usize;
                    if x >= m.len() {
                        m.resize(x + 1, false);
                    }
                    m[x] = true;
                }
                p.iter().map(|&x| x as usize).collect()
            }
        };
        let mut overwrote_one = false;
        let mut interior_pos = false;
        let quick_obs = |bv: &BitVectorMut, m: &Vec<bool>, step: usize| -> CheckResult {
            let ones = m.iter().filter(|&&b| b).count();
            ensure!(bv.len() == m.len(), "after op {step}: len = {}, expected {}", bv.len(), m.len());
            ensure!(bv.count_ones() == ones, "after op {step}: count_ones = {}, expected {ones} (n = {})", bv.count_ones(), m.len());
            note("count_zeros", step as u128, 0, 0);
            let z = bv.count_zeros();
            ensure!(z == m.len() - ones, "after op {step}: count_zeros = {z}, expected {}", m.len() - ones);
            ensure!(bv.is_empty() == m.is_empty(), "after op {step}: is_empty = {}", bv.is_empty());
            Ok(())
        };
        quick_obs(&bv, &m, 0)?;
        for (k, op) in c.ops.iter().enumerate() {
            let n = m.len();
            match op {
                BvmOp::Push(b) => {
                    note("push", *b as u128, 0, 0);
                    bv.push(*b);
                    m.push(*b);
                }
                BvmOp::PushRun(b, cnt) => {
                    note("push", *b as u128, *cnt as u128, 0);
                    for _ in 0..*cnt {
                        bv.push(*b);
                        m.push(*b);
                    }
                }
                BvmOp::AppendBits { bits, len } => {
                    let len = (*len as usize).min(64);
                    let bits = mask(*bits, len);
                    note("append_bits", bits as u128, len as u128, 0);
                    bv.append_bits(bits, len);
                    for j in 0..len {
                        m.push((bits >> j) & 1 == 1);
                    }
                }
                BvmOp::ExtendWithZeros(z) => {
                    note("extend_with_zeros", *z as u128, 0, 0);
                    bv.extend_with_zeros(*z as usize);
                    m.resize(n + *z as usize, false);
                }
                BvmOp::Set { frac, bit } => {
                    if n > 0 {
                        let i = (*frac as usize * n) >> 16;
                        if m[i] && !*bit {
                            overwrote_one = true;
                        }
                        note("set", i as u128, *bit as u128, 0);
                        bv.set(i, *bit);
                        m[i] = *bit;
                    }
                }
                BvmOp::SetBits { frac, len, bits } => {
                    let len = (*len as usize).min(64).min(n);
                    let start = (*frac as usize * (n - len + 1)) >> 16;
                    let bits = mask(*bits, len);
                    if (0..len).any(|j| m[start + j]) {
                        overwrote_one = true;
                    }
                    note("set_bits", start as u128, len as u128, bits as u128);
                    bv.set_bits(start, len, bits);
                    for j in 0..len {
                        m[start + j] = (bits >> j) & 1 == 1;
                    }
                }
                BvmOp::ExtendBools(b) => {
                    note("extend(bools)", b.len() as u128, 0, 0);
                    bv.extend(b.iter().copied());
                    m.extend(b.iter().copied());
                }
                BvmOp::ExtendLoose { bools, mode } => {
                    note("extend(loose bools)", bools.len() as u128, *mode as u128, 0);
                    bv.extend(crate::loose::loose_iter(bools.clone(), *mode));
                    m.extend(bools.iter().copied());
                }
                BvmOp::ExtendPattern { seed, len, sparse_lg, mode } => {
                    let mut r = crate::util::Rng::new(*seed);
                    let mask = (1u64 << (*sparse_lg).min(16)) - 1;
                    let b: Vec<bool> = (0..*len).map(|_| r.next_u64() & mask == 0).collect();
                    note("extend(pattern)", *len as u128, *mode as u128, 0);
                    m.extend(b.iter().copied());
                    if mode % 4 == 0 {
                        bv.extend(b);
                    } else {
                        bv.extend(crate::loose::loose_iter(b, *mode));
                    }
                }
                BvmOp::RebuildFromLooseIter(mode) => {
                    let bits: Vec<bool> = bv.iter().collect();
                    let nb: BitVectorMut = crate::loose::loose_iter(bits, *mode).collect();
                    ensure!(nb == bv, "after op {}: a vector collected from iter() behind a loose size hint (mode {mode}) differs (==) from the original", k + 1);
                    bv = nb;
                }
                BvmOp::ViaLooseBitVector(mode) => {
                    let bits: Vec<bool> = bv.iter().collect();
                    let im: BitVector = crate::loose::loose_iter(bits, *mode).collect();
                    ensure!(im.len() == m.len(), "after op {}: BitVector collected behind a loose size hint (mode {mode}) has len {}, expected {}", k + 1, im.len(), m.len());
                    bv = im.into();
                }
                BvmOp::ImmutableCloneFromInto { dst_len, dst_ones } => {
                    note("clone_from (BitVector)", *dst_len as u128, 0, 0);
                    let src: BitVector = bv.into();
                    let mut dst: BitVector = std::iter::repeat(*dst_ones).take(*dst_len as usize).collect();
                    dst.clone_from(&src);
                    ensure!(dst == src, "after op {}: dst.clone_from(&src) leaves BitVector dst != src (dst held {} bits, src holds {})", k + 1, dst_len, src.len());
                    bv = dst.into();
                }
                BvmOp::ExtendPositionsLoose { fracs, slack, mode } => {
                    let span = n + *slack as usize;
                    let ps: Vec<usize> = fracs.iter().map(|&f| (f as usize * span.max(1)) >> 16).collect();
                    note("extend(loose positions)", ps.len() as u128, *mode as u128, 0);
                    for &p in &ps {
                        if p < m.len() {
                            interior_pos = true;
                        } else {
                            m.resize(p + 1, false);
                        }
                        m[p] = true;
                    }
                    bv.extend(crate::loose::loose_iter(ps, *mode));
                }
                BvmOp::ExtendPositions { fracs, slack } => {
                    let span = n + *slack as usize;
                    let ps: Vec<usize> = fracs.iter().map(|&f| (f as usize * span.max(1)) >> 16).collect();
                    note("extend(positions)", ps.len() as u128, 0, 0);
                    for &p in &ps {
                        if p < m.len() {
                            interior_pos = true;
                        } else {
                            m.resize(p + 1, false);
                        }
                        m[p] = true;
                    }
                    bv.extend(ps.into_iter());
                }
                BvmOp::IntoImmutableAndBack => {
                    let im: BitVector = bv.into();
                    ensure!(im.len() == m.len(), "after op {}: BitVector::from(bvm).len() = {}, expected {}", k + 1, im.len(), m.len());
                    bv = im.into();
                }
                BvmOp::ReplaceByClone => {
                    let cl = bv.clone();
                    ensure!(cl == bv, "after op {}: clone != original", k + 1);
                    bv = cl;
                }
                BvmOp::RebuildFromIter => {
                    let nb: BitVectorMut = bv.iter().collect();
                    ensure!(nb == bv, "after op {}: a vector collected from iter() differs (==) from the original", k + 1);
                    bv = nb;
                }
                BvmOp::ShrinkToFit => bv.shrink_to_fit(),
                BvmOp::CloneFromInto { dst_len, dst_ones } => {
                    note("clone_from", *dst_len as u128, 0, 0);
                    let mut dst: BitVectorMut = std::iter::repeat(*dst_ones).take(*dst_len as usize).collect();
                    dst.clone_from(&bv);
                    ensure!(dst == bv, "after op {}: dst.clone_from(&bv) leaves dst != bv (dst held {} bits, bv holds {})", k + 1, dst_len, bv.len());
                    bv = dst;
                }
            }
            quick_obs(&bv, &m, k + 1)?;
            ctx.queries += 4;
            // (the coverage-guided target runs ~100x slower per case: fewer intermediate sweeps there)
            let every = if ctx.build == "fuzz" { 48 } else { 8 };
            if (k + 1) % every == 0 && k + 1 != c.ops.len() {
                full_obs(&bv, &m, c.plan_seed ^ k as u64, ctx, 12)?;
            }
        }
        full_obs(&bv, &m, c.plan_seed, ctx, if ctx.thorough { 60 } else { 30 })?;
        let n = m.len();
        ctx.label(match n { 0 => "n=0", 1..=64 => "n=1..64", 65..=512 => "n=65..512", 513..=2048 => "n=513..2048", _ => "n>2048" });
        if overwrote_one { ctx.label("overwrote-a-one"); }
        if c.ops.iter().any(|o| matches!(o, BvmOp::ExtendLoose { .. } | BvmOp::ExtendPositionsLoose { .. } | BvmOp::RebuildFromLooseIter(_) | BvmOp::ViaLooseBitVector(_)) || matches!(o, BvmOp::ExtendPattern { mode, .. } if mode % 4 != 0)) { ctx.label("inexact-size-hint"); }
        if c.ops.iter().any(|o| matches!(o, BvmOp::ExtendPattern { len, .. } if *len > 262_144)) { ctx.label("single-extend>2^18"); }
        if interior_pos { ctx.label("positions-into-interior"); }
        if n > 0 && n % 64 == 0 { ctx.label("n%64==0"); }
        if n > 0 && n % 512 == 0 { ctx.label("n%512==0"); }
        ctx.nontrivial = (overwrote_one || interior_pos) && n > 64;
        let _ = unreachable_fail;
        Ok(())
    }
}

/// every observation the property lists, on the mutable value and on its immutable conversion
fn full_obs(bv: &BitVectorMut, m: &[bool], seed: u64, ctx: &mut Ctx, budget: usize) -> CheckResult {
    let model = BitModel::new(m.to_vec());
    let o = BitOpts { unchecked: false, budget, iterators: true, words: true, full_select_upto: 0 };
    let mutable = BitsVal::Bvm(bv.clone());
    check_bits(&mutable, &model, seed, o, ctx)?;
    let im: BitVector = bv.clone().into();
    let immutable = BitsVal::Bv(im.clone());
    check_bits(&immutable, &model, seed ^ 1, o, ctx)?;
    // equality with independently rebuilt vectors holding the same bits
    let rebuilt_m: BitVectorMut = m.iter().copied().collect();
    ensure!(&rebuilt_m == bv, "BitVectorMut differs (==) from a vector collected from the same {} bits", m.len());
    let rebuilt: BitVector = m.iter().copied().collect();
    ensure!(rebuilt == im, "BitVector differs (==) from a vector collected from the same {} bits", m.len());
    // consuming iterators
    let got: Vec<bool> = im.into_iter().take(m.len() + 3).collect();
    ensure!(got == m, "BitVector::into_iter() differs from the bits");
    let got: Vec<bool> = bv.clone().into_iter().take(m.len() + 3).collect();
    ensure!(got == m, "BitVectorMut::into_iter() differs from the bits");
    ctx.queries += 2 * m.len() as u64;
    Ok(())
}

#[allow(dead_code)]
fn unreachable_fail() -> CheckResult {
    fail!("unreachable")
}
