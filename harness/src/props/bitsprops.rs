//! C06 (RSNarrow / RSWide) and C07 (DArray): agreement with the plain bit vector.
use crate::bitcheck::{check_bits, BitOpts};
use crate::bitgen::{explicit_bits, groups_content, recipe_bits, simplify_bits, BitContent};
use crate::bits::{effective_bits, BitsKind, BitsVal, BvHow, WrapHow};
use crate::model::BitModel;
use crate::runner::{CheckResult, Ctx, Prop, Tier};
use proptest::prelude::*;
use serde::{Deserialize, Serialize};
use serde_json::{json, Value};

#[derive(Clone, Debug, PartialEq, Eq, Hash, Serialize, Deserialize)]
pub struct BitsCase {
    pub kind: BitsKind,
    pub bvhow: BvHow,
    pub wrap: WrapHow,
    pub content: BitContent,
    pub plan_seed: u64,
}

pub struct BitsProp {
    pub id: &'static str,
    pub kinds: &'static [BitsKind],
}

pub fn bvhow_strategy(positions_weight: u32) -> BoxedStrategy<BvHow> {
    prop_oneof![
        4 => Just(BvHow::Bools),
        2 => Just(BvHow::Pushes),
        positions_weight => Just(BvHow::PosUsize),
        positions_weight => Just(BvHow::PosU32),
        positions_weight => Just(BvHow::PosU64),
        positions_weight => Just(BvHow::PosI64),
        1 => Just(BvHow::ZerosThenPush),
        1 => Just(BvHow::PosDup),
        2 => any::<u8>().prop_map(BvHow::BoolsLoose),
        positions_weight => any::<u8>().prop_map(BvHow::PosLoose),
        1 => any::<u8>().prop_map(BvHow::ExtendPieces),
        2 => Just(BvHow::ZerosThenSet),
    ]
    .boxed()
}

/// DArray's own classification of the 1024-one blocks of a position list
pub fn block_classes(pos: &[usize]) -> (usize, usize, bool, bool) {
    let mut dense = 0;
    let mut sparse = 0;
    let mut dense_after_sparse = false;
    let mut threshold = false;
    let mut seen_sparse = false;
    for ch in pos.chunks(1024) {
        let span = ch[ch.len() - 1] - ch[0];
        if (65534..=65537).contains(&span) {
            threshold = true;
        }
        if span < 65536 {
            dense += 1;
            if seen_sparse {
                dense_after_sparse = true;
            }
        } else {
            sparse += 1;
            seen_sparse = true;
        }
    }
    (dense, sparse, dense_after_sparse, threshold)
}

pub fn abbreviate_bits(c: &BitsCase) -> Value {
    let b = c.content.expand();
    let ones = b.iter().filter(|&&x| x).count();
    json!({
        "type": c.kind.name(),
        "built": format!("{:?}/{:?}", c.bvhow, c.wrap),
        "n": b.len(),
        "ones": ones,
        "content": match &c.content {
            BitContent::Explicit(_) => "explicit".to_string(),
            BitContent::Groups { groups, complement, .. } => format!("groups {:?} complement={}", groups.iter().map(|g| format!("{}x{:?}", g.count, g.law)).collect::<Vec<_>>(), complement),
            other => { let s = format!("{:?}", other); s[..s.len().min(120)].to_string() }
        },
        "first": b.iter().take(48).map(|&x| if x { '1' } else { '0' }).collect::<String>(),
    })
}

impl Prop for BitsProp {
    type Case = BitsCase;
    fn id(&self) -> &'static str {
        self.id
    }
    fn strategy(&self, tier: Tier, _build: &str) -> BoxedStrategy<BitsCase> {
        let kinds = self.kinds.to_vec();
        let is_da = self.id == "C07";
        let (max_n, max_groups) = match tier {
            Tier::Quick => (1_200_000usize, 4usize),
            Tier::Thorough => (16_000_000, 8),
        };
        let content = if is_da {
            prop_oneof![
                6 => groups_content(max_groups),
                2 => explicit_bits(3000),
                2 => recipe_bits(3001, max_n),
            ]
            .boxed()
        } else {
            prop_oneof![
                5 => explicit_bits(3000),
                4 => recipe_bits(3001, max_n),
                1 => groups_content(max_groups.min(3)),
            ]
            .boxed()
        };
        (
            proptest::sample::select(kinds),
            bvhow_strategy(if is_da { 2 } else { 1 }),
            prop_oneof![Just(WrapHow::New), Just(WrapHow::From), Just(WrapHow::Collect)],
            content,
            any::<u64>(),
        )
            .prop_map(|(kind, bvhow, wrap, content, plan_seed)| {
                let empty = matches!(&content, BitContent::Explicit(v) if v.is_empty());
                let (bvhow, wrap) = if empty && plan_seed % 3 == 0 {
                    (BvHow::Default, if plan_seed % 2 == 0 { WrapHow::Default } else { wrap })
                } else {
                    (bvhow, wrap)
                };
                BitsCase { kind, bvhow, wrap, content, plan_seed }
            })
            .boxed()
    }
    fn builds(&self, _tier: Tier) -> Vec<&'static str> {
        // the crate feature `prefetch` must not matter for any answer: a smaller run without it
        // `asan`: generated cases under AddressSanitizer; `native`: `-C target-cpu=native`
        vec!["fast", "checked", "noprefetch", "asan", "native"]
    }
    fn cases(&self, tier: Tier, build: &str) -> u32 {
        match (self.id, tier, build) {
            ("C06", Tier::Quick, "fast") => 40_000,
            ("C06", Tier::Quick, "noprefetch") | ("C06", Tier::Quick, "native") => 6_000,
            ("C06", Tier::Thorough, "native") => 20_000,
            (_, Tier::Quick, "native") => 1_600,
            (_, Tier::Thorough, "native") => 6_000,
            ("C06", Tier::Quick, "asan") => 3_000,
            ("C06", Tier::Thorough, "asan") => 15_000,
            (_, Tier::Quick, "asan") => 800,
            (_, Tier::Thorough, "asan") => 4_000,
            ("C06", Tier::Quick, _) => 15_000,
            ("C06", Tier::Thorough, "fast") => 160_000,
            ("C06", Tier::Thorough, "noprefetch") => 20_000,
            ("C06", Tier::Thorough, _) => 40_000,
            (_, Tier::Quick, "fast") => 10_000,
            (_, Tier::Quick, "noprefetch") => 1_600,
            (_, Tier::Quick, _) => 3_200,
            (_, Tier::Thorough, "fast") => 60_000,
            (_, Tier::Thorough, "noprefetch") => 6_000,
            (_, Tier::Thorough, _) => 12_000,
        }
    }
    fn rule(&self) -> &'static str {
        if self.id == "C06" {
            "cases = (RSNarrow|RSWide, way of building the bit vector, bits from explicit/density/run/block/count-crossing/group generators, query plan seed); non-trivial = n > 512 with both bit values present; distinct = hash of the whole case"
        } else {
            "cases = (DArray<false>|DArray<true>, bools or typed position list, bits mostly from the group grammar: 1024-one groups that are dense, sparse, exactly at the 65536 threshold or cluster+gap, optionally complemented); non-trivial = at least one dense and one sparse 1024-block for ones or for zeros; distinct = hash of the whole case"
        }
    }
    fn sample(&self, c: &BitsCase) -> Value {
        abbreviate_bits(c)
    }
    /// long, very sparse (and very dense) vectors: one select hint range spans thousands of
    /// superblocks, many of them without a single one (zero). The generated cases of the quick
    /// tier stop at 1.2 Mbit, where such ranges do not exist.
    fn fixed_cases(&self, tier: Tier) -> Vec<BitsCase> {
        let mut v = Vec::new();
        let sizes: &[usize] = match tier {
            Tier::Quick => &[5_000_003],
            Tier::Thorough => &[5_000_003, 21_000_000],
        };
        for (j, &kind) in self.kinds.iter().enumerate() {
            for &n in sizes {
                for (i, num) in [3u32, 40, 65536 - 3, 65536 - 40].into_iter().enumerate() {
                    let seed = (j * 16 + i) as u64 + n as u64;
                    v.push(BitsCase { kind, bvhow: BvHow::Bools, wrap: if i % 2 == 0 { WrapHow::New } else { WrapHow::From }, content: BitContent::Density { n, num, seed }, plan_seed: seed });
                }
            }
        }
        // just above 2^21 bits, half / mostly ones (layout parameters derived from the length)
        for (j, &kind) in self.kinds.iter().enumerate() {
            for (i, (n, num)) in [((1usize << 21) + 1, 32768u32), ((1usize << 21) + 130, 65536 - 40)].into_iter().enumerate() {
                let seed = 900 + (j * 4 + i) as u64;
                v.push(BitsCase { kind, bvhow: BvHow::Bools, wrap: WrapHow::New, content: BitContent::Density { n, num, seed }, plan_seed: seed });
            }
        }
        v
    }
    fn simplify(&self, c: &BitsCase) -> Vec<BitsCase> {
        simplify_bits(&c.content)
            .into_iter()
            .map(|content| BitsCase { content, ..c.clone() })
            .collect()
    }
    fn run(&self, c: &BitsCase, ctx: &mut Ctx) -> CheckResult {
        let raw = c.content.expand();
        let bits = if c.wrap == WrapHow::Default { vec![] } else { effective_bits(c.bvhow, &raw) };
        let m = BitModel::new(bits.clone());
        let v = BitsVal::build(c.kind, c.bvhow, c.wrap, &raw);
        let n = m.n();
        ctx.label(&format!("kind={}", c.kind.name()));
        ctx.label(&format!("bv={}", crate::util::variant_name(&c.bvhow)));
        ctx.label(match n { 0 => "n=0", 1..=64 => "n=1..64", 65..=512 => "n=65..512", 513..=4096 => "n=513..4096", 4097..=32768 => "n=4097..32768", 32769..=300000 => "n=32769..300000", _ => "n>300000" });
        if n > 0 && m.ones.len() == n { ctx.label("all-ones"); }
        if n > 0 && m.zeros.len() == n { ctx.label("all-zeros"); }
        if n > 0 && n % 512 == 0 { ctx.label("n%512==0"); }
        if m.ones.len() >= 2048 { ctx.label("ones>=2hints(1024)"); }
        if m.ones.len() >= 16384 { ctx.label("ones>=2hints(8192)"); }
        if m.zeros.len() >= 2048 { ctx.label("zeros>=2hints(1024)"); }
        if m.zeros.len() >= 16384 { ctx.label("zeros>=2hints(8192)"); }
        if self.id == "C07" {
            let (d1, s1, das1, th1) = if m.ones.is_empty() { (0, 0, false, false) } else { block_classes(&m.ones) };
            let (d0, s0, das0, th0) = if m.zeros.is_empty() || c.kind == BitsKind::Da0 { (0, 0, false, false) } else { block_classes(&m.zeros) };
            if das1 || das0 { ctx.label("dense-after-sparse"); }
            if th1 || th0 { ctx.label("threshold-group"); }
            if m.ones.len() % 1024 != 0 { ctx.label("partial-last-group"); }
            if s1 > 0 { ctx.label("has-sparse-ones-block"); }
            if s0 > 0 { ctx.label("has-sparse-zeros-block"); }
            ctx.nontrivial = (d1 > 0 && s1 > 0) || (d0 > 0 && s0 > 0);
        } else {
            ctx.nontrivial = n > 512 && !m.ones.is_empty() && !m.zeros.is_empty();
        }
        let o = BitOpts { unchecked: false, budget: if ctx.thorough { 100 } else { 60 }, iterators: n <= 400_000, full_select_upto: if self.id == "C07" { 40_000 } else { 9000 }, ..BitOpts::default() };
        check_bits(&v, &m, c.plan_seed, o, ctx)
    }
}
