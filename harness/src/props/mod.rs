pub mod seqexact;
