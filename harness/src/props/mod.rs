pub mod seqexact;
pub mod bitsprops;
pub mod quadprops;
pub mod c08;
