pub mod seqexact;
pub mod bitsprops;
