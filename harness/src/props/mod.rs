pub mod seqexact;
pub mod bitsprops;
pub mod quadprops;
pub mod c08;
pub mod c17;
