pub mod seqexact;
pub mod bitsprops;
pub mod quadprops;
pub mod c08;
pub mod c17;
pub mod derived;
pub mod c12;
pub mod c19;
