//! C05 (RSQVector256/512 against the plain quaternary sequence) and C13 (QVector / QVectorBuilder).
use crate::model::QuadModel;
use crate::quads::*;
use crate::runner::{CheckResult, Ctx, Prop, Tier};
use crate::with_int_ty;
use crate::{ensure, fail};
use proptest::prelude::*;
use qwt::{AccessQuad, QVector, QVectorBuilder};
use serde::{Deserialize, Serialize};
use serde_json::{json, Value};

#[derive(Clone, Debug, PartialEq, Eq, Hash, Serialize, Deserialize)]
pub struct QuadCase {
    pub kind: QuadKind,
    pub how: QuadHow,
    pub content: QuadContent,
    /// non-zero: fill the bits above the two low ones of the carried integers
    pub salt: u64,
    pub plan_seed: u64,
}

pub struct C05;

fn int_ty() -> BoxedStrategy<IntTy> {
    proptest::sample::select(IntTy::ALL.to_vec()).boxed()
}
fn uint_ty() -> BoxedStrategy<IntTy> {
    proptest::sample::select(IntTy::UNSIGNED.to_vec()).boxed()
}

pub fn quad_how() -> BoxedStrategy<QuadHow> {
    prop_oneof![
        3 => int_ty().prop_map(QuadHow::FromQVector),
        2 => uint_ty().prop_map(QuadHow::NewSlice),
        2 => int_ty().prop_map(QuadHow::Collect),
        1 => prop_oneof![Just(4u8), Just(0), Just(2), Just(9), 0u8..40].prop_map(QuadHow::Builder),
        2 => (int_ty(), any::<u8>()).prop_map(|(t, m)| QuadHow::CollectLoose(t, m)),
        1 => any::<u8>().prop_map(QuadHow::BuilderPieces),
    ]
    .boxed()
}

pub fn abbreviate_quads(c: &QuadCase) -> Value {
    let q = c.content.expand();
    let cs = format!("{:?}", c.content);
    json!({
        "type": c.kind.name(),
        "how": format!("{:?}", c.how),
        "n": q.len(),
        "content": cs[..cs.len().min(100)].to_string(),
        "first": q.iter().take(48).map(|x| char::from(b'0' + x)).collect::<String>(),
    })
}

pub fn quad_case(kinds: Vec<QuadKind>, max_n: usize) -> BoxedStrategy<QuadCase> {
    (
        proptest::sample::select(kinds),
        quad_how(),
        prop_oneof![5 => explicit_quads(3000), 4 => recipe_quads(3001, max_n)],
        prop_oneof![Just(0u64), any::<u64>()],
        any::<u64>(),
    )
        .prop_map(|(kind, how, content, salt, plan_seed)| {
            let empty = matches!(&content, QuadContent::Explicit(v) if v.is_empty());
            let how = if empty && plan_seed % 3 == 0 { QuadHow::Default } else { how };
            QuadCase { kind, how, content, salt, plan_seed }
        })
        .boxed()
}

pub fn label_quads(m: &QuadModel, ctx: &mut Ctx) {
    let n = m.n();
    ctx.label(match n { 0 => "n=0", 1..=128 => "n=1..128", 129..=512 => "n=129..512", 513..=4096 => "n=513..4096", 4097..=70000 => "n=4097..70000", _ => "n>70000" });
    let present = (0..4).filter(|&s| m.occs(s) > 0).count();
    ctx.label(&format!("symbols_present={present}"));
    if n > 4096 { ctx.label(">1superblock(512)"); }
    if (0..4).any(|s| m.occs(s) > 8192) { ctx.label("symbol>8192occ"); }
    if n > 0 && n % 256 == 0 { ctx.label("n%256==0"); }
    if n > 0 && n % 4096 == 0 { ctx.label("n%4096==0"); }
    // a symbol that occurs but is absent from one whole 2048-symbol superblock
    if n >= 4096 {
        'o: for s in 0..4u8 {
            if m.occs(s) == 0 { continue; }
            for sb in 0..n / 2048 {
                if m.rank(s, (sb + 1) * 2048) == m.rank(s, sb * 2048) {
                    ctx.label("symbol-absent-from-a-superblock");
                    break 'o;
                }
            }
        }
    }
}

impl Prop for C05 {
    type Case = QuadCase;
    fn id(&self) -> &'static str { "C05" }
    fn strategy(&self, tier: Tier, _b: &str) -> BoxedStrategy<QuadCase> {
        quad_case(vec![QuadKind::Rs256, QuadKind::Rs512], if tier == Tier::Quick { 1_000_000 } else { 8_000_000 })
    }
    fn cases(&self, tier: Tier, build: &str) -> u32 {
        match (tier, build) {
            (Tier::Quick, "fast") => 40_000,
            (Tier::Quick, "noprefetch") | (Tier::Quick, "native") => 6_000,
            (Tier::Thorough, "native") => 25_000,
            (Tier::Quick, "asan") => 3_000,
            (Tier::Quick, _) => 15_000,
            (Tier::Thorough, "fast") => 200_000,
            (Tier::Thorough, "noprefetch") => 25_000,
            (Tier::Thorough, "asan") => 15_000,
            (Tier::Thorough, _) => 50_000,
        }
    }
    fn builds(&self, _tier: Tier) -> Vec<&'static str> {
        // the crate feature `prefetch` must not matter for any answer: a smaller run without it
        // `asan`: generated cases under AddressSanitizer; `native`: compiled with
        // `-C target-cpu=native` (code selected by `cfg(target_feature = ...)`)
        vec!["fast", "checked", "noprefetch", "asan", "native"]
    }
    fn rule(&self) -> &'static str {
        "cases = (RSQVector256|RSQVector512, construction path with carrier integer type, quaternary content from explicit/weighted/run/periodic/rare-symbol/late-symbol generators, query plan seed); non-trivial = n > 256 and >= 2 symbols present; distinct = hash of the whole case"
    }
    fn sample(&self, c: &QuadCase) -> Value { abbreviate_quads(c) }
    /// Enumerated: vectors in which the distance between two consecutive select samples of one
    /// symbol takes every value from 4 to 2^8 + 8 superblocks (2048 symbols for RSQVector256, 4096
    /// for RSQVector512), with select queried around every sample. The generated cases stop at
    /// 10^6 (quick) symbols, where a sample pair is at most a few dozen superblocks apart unless
    /// the symbol is rare; a span of a particular length (a table size, a byte) is never produced
    /// on purpose there.
    fn fixed_cases(&self, tier: Tier) -> Vec<QuadCase> {
        let mut v = vec![
            QuadCase { kind: QuadKind::Rs256, how: QuadHow::FromQVector(IntTy::U8), content: QuadContent::SampleGaps { s: 2, bg: 0, unit: 2048, gmin: 4, gmax: 264, off: 0, stride: 1 }, salt: 0, plan_seed: 71 },
            QuadCase { kind: QuadKind::Rs512, how: QuadHow::FromQVector(IntTy::U8), content: QuadContent::SampleGaps { s: 1, bg: 3, unit: 2048, gmin: 4, gmax: 200, off: 1000, stride: 2 }, salt: 0, plan_seed: 72 },
        ];
        if tier == Tier::Thorough {
            v.push(QuadCase { kind: QuadKind::Rs512, how: QuadHow::FromQVector(IntTy::U8), content: QuadContent::SampleGaps { s: 3, bg: 1, unit: 4096, gmin: 2, gmax: 264, off: 0, stride: 1 }, salt: 0, plan_seed: 73 });
            v.push(QuadCase { kind: QuadKind::Rs256, how: QuadHow::FromQVector(IntTy::U8), content: QuadContent::SampleGaps { s: 0, bg: 2, unit: 2048, gmin: 200, gmax: 330, off: 77, stride: 1 }, salt: 0, plan_seed: 74 });
        }
        v
    }
    fn simplify(&self, c: &QuadCase) -> Vec<QuadCase> {
        if matches!(c.content, QuadContent::SampleGaps { .. }) {
            return vec![]; // tens of millions of symbols: reported as it is
        }
        simplify_quads(&c.content).into_iter().map(|content| QuadCase { content, ..c.clone() }).collect()
    }
    fn run(&self, c: &QuadCase, ctx: &mut Ctx) -> CheckResult {
        let q = if c.how == QuadHow::Default { vec![] } else { c.content.expand() };
        let m = QuadModel::new(q.clone());
        let v = QuadVal::build(c.kind, c.how, &q, c.salt);
        ctx.label(&format!("kind={}", c.kind.name()));
        ctx.label(&format!("how={}", crate::util::variant_name(&c.how)));
        ctx.label(&format!("content={}", crate::util::variant_name(&c.content)));
        label_quads(&m, ctx);
        ctx.nontrivial = m.n() > 256 && (0..4).filter(|&s| m.occs(s) > 0).count() >= 2;
        check_quads(&v, &m, c.plan_seed, QuadOpts { unchecked: false, budget: if ctx.thorough { 80 } else { 50 }, iterators: m.n() <= 300_000, all_samples: matches!(c.content, QuadContent::SampleGaps { .. }) }, ctx)
    }
}

// ---------------------------------------------------------------------------------------------
// C13

#[derive(Clone, Debug, PartialEq, Eq, Hash, Serialize, Deserialize)]
pub enum QvbStart {
    New,
    Default,
    WithCapacity(usize),
    /// `QVectorBuilder::from_iter` over values of the given type
    BuilderFromIter(IntTy, Vec<i128>),
    /// `QVector::from_iter` (no builder ops are applied afterwards)
    VectorFromIter(IntTy, Vec<i128>),
    /// as `BuilderFromIter` / `VectorFromIter`, from an iterator with an inexact size hint
    BuilderFromLooseIter(IntTy, Vec<i128>, u8),
    VectorFromLooseIter(IntTy, Vec<i128>, u8),
    /// `QVector::from_iter` over `len` pseudo-random u8 symbols in one call (exact iterator if
    /// mode % 4 == 0, loose otherwise): single collects of more than 2^18 symbols
    VectorFromPattern { seed: u64, len: u32, mode: u8 },
}

#[derive(Clone, Debug, PartialEq, Eq, Hash, Serialize, Deserialize)]
pub enum QvbOp {
    Push(u8),
    PushRun(u8, u16),
    Extend(IntTy, Vec<i128>),
    ExtendRun(IntTy, i128, u16),
    /// clone the builder and continue with the clone
    CloneSelf,
    /// `extend` from an iterator with an inexact size hint
    ExtendLoose(IntTy, Vec<i128>, u8),
    /// `extend` with `len` pseudo-random u8 symbols in one call
    ExtendPattern { seed: u64, len: u32, mode: u8 },
}

#[derive(Clone, Debug, PartialEq, Eq, Hash, Serialize, Deserialize)]
pub struct QvbCase {
    pub start: QvbStart,
    pub ops: Vec<QvbOp>,
}

pub struct C13;

fn low2(v: i128) -> u8 {
    (v & 3) as u8
}

fn values() -> BoxedStrategy<Vec<i128>> {
    let val = prop_oneof![
        3 => (0i128..4),
        2 => any::<i8>().prop_map(|x| x as i128),
        2 => any::<i128>(),
        1 => Just(-1i128),
        1 => Just(i128::MIN),
        1 => Just(i128::MAX),
        1 => (4i128..300),
    ];
    prop_oneof![
        3 => proptest::collection::vec(val.clone(), 0..40),
        2 => proptest::collection::vec(val.clone(), 100..300),
        1 => proptest::collection::vec(val, 500..600),
    ]
    .boxed()
}

fn typed_loose<T: Clone + 'static>(v: Vec<T>, mode: u8) -> Box<dyn Iterator<Item = T>> {
    crate::loose::loose_iter(v, mode)
}

fn pattern(seed: u64, len: u32) -> Vec<u8> {
    let mut r = crate::util::Rng::new(seed);
    (0..len).map(|_| (r.next_u64() >> 7) as u8).collect()
}

fn extend_typed_loose(b: &mut QVectorBuilder, ty: IntTy, vals: &[i128], mode: u8) {
    use num_traits::AsPrimitive;
    with_int_ty!(ty, T => {
        let v: Vec<T> = vals.iter().map(|&x| { let y: T = x.as_(); y }).collect();
        b.extend(typed_loose(v, mode));
    })
}

fn extend_typed(b: &mut QVectorBuilder, ty: IntTy, vals: &[i128]) {
    use num_traits::AsPrimitive;
    with_int_ty!(ty, T => {
        let v: Vec<T> = vals.iter().map(|&x| { let y: T = x.as_(); y }).collect();
        b.extend(v);
    })
}

impl Prop for C13 {
    type Case = QvbCase;
    fn id(&self) -> &'static str { "C13" }
    fn strategy(&self, tier: Tier, _b: &str) -> BoxedStrategy<QvbCase> {
        let maxops = if tier == Tier::Quick { 12 } else { 40 };
        let big: u32 = if tier == Tier::Quick { 300_000 } else { 1_200_000 };
        let big_len = prop_oneof![12 => 0u32..3000, 1 => prop_oneof![Just(262_144u32), Just(262_145), 262_000u32..=263_000, 262_145u32..=big]];
        let start = prop_oneof![
            3 => Just(QvbStart::New),
            1 => Just(QvbStart::Default),
            2 => prop_oneof![Just(0usize), 0usize..2000, Just(256usize), Just(255), Just(257)].prop_map(QvbStart::WithCapacity),
            2 => (int_ty(), values()).prop_map(|(t, v)| QvbStart::BuilderFromIter(t, v)),
            2 => (int_ty(), values()).prop_map(|(t, v)| QvbStart::VectorFromIter(t, v)),
            1 => (int_ty(), values(), any::<u8>()).prop_map(|(t, v, m)| QvbStart::BuilderFromLooseIter(t, v, m)),
            1 => (int_ty(), values(), any::<u8>()).prop_map(|(t, v, m)| QvbStart::VectorFromLooseIter(t, v, m)),
            1 => (any::<u64>(), big_len.clone(), any::<u8>()).prop_map(|(seed, len, mode)| QvbStart::VectorFromPattern { seed, len, mode }),
        ];
        let op = prop_oneof![
            3 => any::<u8>().prop_map(QvbOp::Push),
            3 => (any::<u8>(), prop_oneof![1u16..300, Just(127u16), Just(128), Just(129), Just(255), Just(256), Just(257), Just(511), Just(512), Just(513)]).prop_map(|(s, c)| QvbOp::PushRun(s, c)),
            3 => (int_ty(), values()).prop_map(|(t, v)| QvbOp::Extend(t, v)),
            2 => (int_ty(), any::<i128>(), 1u16..600).prop_map(|(t, v, c)| QvbOp::ExtendRun(t, v, c)),
            1 => Just(QvbOp::CloneSelf),
            2 => (int_ty(), values(), any::<u8>()).prop_map(|(t, v, m)| QvbOp::ExtendLoose(t, v, m)),
            1 => (any::<u64>(), big_len, any::<u8>()).prop_map(|(seed, len, mode)| QvbOp::ExtendPattern { seed, len, mode }),
        ];
        (start, proptest::collection::vec(op, 0..=maxops))
            .prop_map(|(start, ops)| QvbCase { start, ops })
            .boxed()
    }
    fn builds(&self, _tier: Tier) -> Vec<&'static str> { vec!["fast", "checked", "asan"] }
    fn cases(&self, tier: Tier, build: &str) -> u32 {
        match (tier, build) {
            (Tier::Quick, "fast") => 30_000,
            (Tier::Quick, "asan") => 4_000,
            (Tier::Quick, _) => 15_000,
            (Tier::Thorough, "fast") => 600_000,
            (Tier::Thorough, "asan") => 40_000,
            (Tier::Thorough, _) => 300_000,
        }
    }
    fn rule(&self) -> &'static str {
        "cases = histories over QVectorBuilder (new/default/with_capacity/from_iter start, then push, push runs, extend with vectors of any of the 12 integer types incl. negative and > 3 values, clone) or QVector::from_iter; non-trivial = >= 2 ops of different kinds, a value outside 0..=3, final length > 128; distinct = hash of the history"
    }
    fn sample(&self, c: &QvbCase) -> Value {
        let s = format!("{:?}", c);
        json!({"history": s[..s.len().min(300)].to_string(), "ops": c.ops.len()})
    }
    fn simplify(&self, c: &QvbCase) -> Vec<QvbCase> {
        crate::runner::chunk_removals(&c.ops, 8).into_iter().map(|ops| QvbCase { start: c.start.clone(), ops }).collect()
    }
    fn run(&self, c: &QvbCase, ctx: &mut Ctx) -> CheckResult {
        use num_traits::AsPrimitive;
        let mut model: Vec<u8> = Vec::new();
        let mut outside = false;
        let mut kinds = std::collections::BTreeSet::new();
        let mut note_vals = |vals: &[i128], outside: &mut bool| {
            if vals.iter().any(|v| !(0..4).contains(v)) {
                *outside = true;
            }
        };
        let qv: QVector = match &c.start {
            QvbStart::VectorFromIter(ty, vals) => {
                note_vals(vals, &mut outside);
                model.extend(vals.iter().map(|&v| low2(v)));
                kinds.insert("vector_from_iter");
                with_int_ty!(*ty, T => vals.iter().map(|&x| { let y: T = x.as_(); y }).collect::<QVector>())
            }
            QvbStart::VectorFromLooseIter(ty, vals, mode) => {
                note_vals(vals, &mut outside);
                model.extend(vals.iter().map(|&v| low2(v)));
                kinds.insert("vector_from_iter");
                with_int_ty!(*ty, T => typed_loose(vals.iter().map(|&x| { let y: T = x.as_(); y }).collect::<Vec<T>>(), *mode).collect::<QVector>())
            }
            QvbStart::VectorFromPattern { seed, len, mode } => {
                let v = pattern(*seed, *len);
                outside = true;
                model.extend(v.iter().map(|&x| x & 3));
                kinds.insert("vector_from_iter");
                if mode % 4 == 0 { v.into_iter().collect::<QVector>() } else { typed_loose(v, *mode).collect::<QVector>() }
            }
            start => {
                let mut b = match start {
                    QvbStart::New => QVectorBuilder::new(),
                    QvbStart::Default => QVectorBuilder::default(),
                    QvbStart::WithCapacity(n) => QVectorBuilder::with_capacity(*n),
                    QvbStart::BuilderFromIter(ty, vals) => {
                        note_vals(vals, &mut outside);
                        model.extend(vals.iter().map(|&v| low2(v)));
                        kinds.insert("builder_from_iter");
                        with_int_ty!(*ty, T => vals.iter().map(|&x| { let y: T = x.as_(); y }).collect::<QVectorBuilder>())
                    }
                    QvbStart::BuilderFromLooseIter(ty, vals, mode) => {
                        note_vals(vals, &mut outside);
                        model.extend(vals.iter().map(|&v| low2(v)));
                        kinds.insert("builder_from_iter");
                        with_int_ty!(*ty, T => typed_loose(vals.iter().map(|&x| { let y: T = x.as_(); y }).collect::<Vec<T>>(), *mode).collect::<QVectorBuilder>())
                    }
                    QvbStart::VectorFromIter(..) | QvbStart::VectorFromLooseIter(..) | QvbStart::VectorFromPattern { .. } => unreachable!(),
                };
                for op in &c.ops {
                    match op {
                        QvbOp::Push(s) => {
                            kinds.insert("push");
                            if *s > 3 { outside = true; }
                            b.push(*s);
                            model.push(s & 3);
                        }
                        QvbOp::PushRun(s, cnt) => {
                            kinds.insert("push");
                            if *s > 3 { outside = true; }
                            for _ in 0..*cnt {
                                b.push(*s);
                                model.push(s & 3);
                            }
                        }
                        QvbOp::Extend(ty, vals) => {
                            kinds.insert("extend");
                            note_vals(vals, &mut outside);
                            extend_typed(&mut b, *ty, vals);
                            model.extend(vals.iter().map(|&v| low2(v)));
                        }
                        QvbOp::ExtendRun(ty, v, cnt) => {
                            kinds.insert("extend");
                            note_vals(&[*v], &mut outside);
                            let vals = vec![*v; *cnt as usize];
                            extend_typed(&mut b, *ty, &vals);
                            model.extend(vals.iter().map(|&v| low2(v)));
                        }
                        QvbOp::ExtendLoose(ty, vals, mode) => {
                            kinds.insert("extend");
                            note_vals(vals, &mut outside);
                            extend_typed_loose(&mut b, *ty, vals, *mode);
                            model.extend(vals.iter().map(|&v| low2(v)));
                        }
                        QvbOp::ExtendPattern { seed, len, mode } => {
                            kinds.insert("extend");
                            outside = true;
                            let v = pattern(*seed, *len);
                            model.extend(v.iter().map(|&x| x & 3));
                            if mode % 4 == 0 { b.extend(v) } else { b.extend(typed_loose(v, *mode)) }
                        }
                        QvbOp::CloneSelf => {
                            kinds.insert("clone");
                            let b2 = b.clone();
                            ensure!(b2 == b, "QVectorBuilder: clone differs from the original");
                            b = b2;
                        }
                    }
                }
                b.build()
            }
        };
        let n = model.len();
        ctx.label(match n { 0 => "n=0", 1..=127 => "n=1..127", 128..=129 => "n=128..129", 130..=254 => "n=130..254", 255..=257 => "n=255..257", 258..=510 => "n=258..510", 511..=513 => "n=511..513", _ => "n>513" });
        if n > 0 && n % 256 == 0 { ctx.label("n%256==0"); }
        if matches!(c.start, QvbStart::BuilderFromLooseIter(..) | QvbStart::VectorFromLooseIter(..)) || c.ops.iter().any(|o| matches!(o, QvbOp::ExtendLoose(..))) { ctx.label("inexact-size-hint"); }
        let single = |len: u32| len > 262_144;
        if matches!(c.start, QvbStart::VectorFromPattern { len, .. } if single(len)) || c.ops.iter().any(|o| matches!(o, QvbOp::ExtendPattern { len, .. } if single(*len))) { ctx.label("single-call>2^18"); }
        if c.ops.iter().filter(|o| matches!(o, QvbOp::Extend(..) | QvbOp::ExtendRun(..) | QvbOp::ExtendLoose(..) | QvbOp::ExtendPattern { .. })).count() >= 2 { ctx.label("extend-twice"); }
        ctx.nontrivial = kinds.len() >= 2 && outside && n > 128;
        ctx.q();
        ensure!(qv.len() == n, "QVector: len = {}, expected {n}", qv.len());
        ensure!(qv.is_empty() == (n == 0), "QVector: is_empty = {} with {n} values", qv.is_empty());
        for i in 0..n {
            let g = qv.get(i);
            ctx.q();
            ensure!(g == Some(model[i]), "QVector: get({i}) = {:?}, expected Some({}) (n = {n})", g, model[i]);
        }
        for i in [n, n + 1, n + 255, n + 256, (n / 256 + 1) * 256, usize::MAX, usize::MAX / 2, 1usize << 63] {
            let g = qv.get(i);
            ctx.q();
            ensure!(g.is_none(), "QVector: get({i}) = {:?}, expected None (n = {n})", g);
        }
        let it: Vec<u8> = qv.iter().take(n + 5).collect();
        ensure!(it == model, "QVector: iter() differs from the pushed symbols");
        let it: Vec<u8> = (&qv).into_iter().take(n + 5).collect();
        ensure!(it == model, "QVector: (&qv).into_iter() differs from the pushed symbols");
        // provided iterator methods (nth, skip, step_by, last, count) on both iterator flavours
        {
            let qref = &qv;
            crate::iteradapt::check_adapters(|| qref.iter(), &model, n as u64 + 1, "QVector iter()", ctx)?;
            crate::iteradapt::check_adapters(|| <&QVector as IntoIterator>::into_iter(qref), &model, n as u64 + 3, "QVector (&qv).into_iter()", ctx)?;
            if n <= 5000 {
                crate::iteradapt::check_adapters(|| qref.clone().into_iter(), &model, n as u64 + 2, "QVector into_iter()", ctx)?;
            }
        }
        let rebuilt: QVector = model.iter().copied().collect();
        ensure!(rebuilt == qv, "QVector: differs (==) from a vector collected from the same symbols");
        let mut oi = qv.into_iter();
        for i in 0..n {
            let x = oi.next();
            ensure!(x == Some(model[i]), "QVector: into_iter() item {i} = {:?}, expected {}", x, model[i]);
        }
        for _ in 0..5 {
            ensure!(oi.next().is_none(), "QVector: into_iter() yields an item after the end");
        }
        ctx.queries += 3 * n as u64;
        let _ = unreachable_fail;
        Ok(())
    }
}

#[allow(dead_code)]
fn unreachable_fail() -> CheckResult {
    fail!("unreachable")
}
