//! C01, C02, C03: exact get/rank/select of the three wavelet-tree families.
use crate::model::{huffman_lengths, SeqModel};
use crate::runner::{CheckResult, Ctx, Prop, Tier};
use crate::seqcheck::{check_tree, label_seq, SeqOpts};
use crate::seqgen::{seq_case, SeqCase, SeqGenCfg};
use crate::trees::{build_tree, TreeKind};
use crate::util::bitlen;
use proptest::strategy::BoxedStrategy;
use serde_json::{json, Value};

pub struct SeqExact {
    pub id: &'static str,
    pub kinds: &'static [TreeKind],
}

impl SeqExact {
    fn is_prefetch(&self) -> bool {
        self.id == "C09"
    }
}

pub fn abbreviate_seq(c: &SeqCase) -> Value {
    let s = c.content.expand();
    let m = SeqModel::new(s.clone());
    json!({
        "type": format!("{}<{}>", c.kind.name(), c.ty.name()),
        "how": format!("{:?}", c.how),
        "n": s.len(),
        "distinct": m.distinct(),
        "max": m.max().map(|x| x.to_string()),
        "first": s.iter().take(16).map(|x| x.to_string()).collect::<Vec<_>>(),
        "content": match &c.content {
            crate::seqgen::Content::Explicit(_) => "explicit".to_string(),
            crate::seqgen::Content::Recipe(r) => format!("recipe {:?}/{:?}", r.profile, r.arr),
        },
        "tie_seed": c.tie_seed,
    })
}

/// enumerated cases with the deepest Huffman codes the structure supports
pub fn deep_code_cases(id: &str, tier: Tier) -> Vec<SeqCase> {
    use crate::elem::ElemTy;
    use crate::seqgen::{Arr, Content, Profile, Recipe};
    use crate::trees::How;
    let mut v = Vec::new();
    let alpha: Vec<u128> = (0..64).collect();
    let mk = |kind: TreeKind, ty: ElemTy, n: usize, k: u8, arr: Arr, seed: u64| SeqCase {
        kind,
        ty,
        how: How::FromVec,
        content: Content::Recipe(Recipe { n, alphabet: alpha.clone(), profile: Profile::Deep(k), arr, seed }),
        tie_seed: seed,
        plan_seed: seed,
    };
    if id == "C02" || id == "C09" {
        v.push(mk(TreeKind::Hqwt256, ElemTy::U8, 1_318_810, 4, Arr::Shuffled, 2));
        v.push(mk(TreeKind::Hqwt512Pfs, ElemTy::U32, 1_400_001, 4, Arr::Runs(6), 3));
        // two chains below the root: 13 levels (26-bit codes that differ in their first digit)
        // from n = 1 690 546, 14 levels from n = 4 711 074
        let two = |kind: TreeKind, n: usize, seed: u64| SeqCase {
            kind,
            ty: ElemTy::U8,
            how: How::New,
            content: Content::Recipe(Recipe { n, alphabet: (0..120).collect(), profile: Profile::DeepChains(2), arr: Arr::Shuffled, seed }),
            tie_seed: seed,
            plan_seed: seed,
        };
        v.push(two(TreeKind::Hqwt256, 1_700_000, 7));
        if tier == Tier::Thorough {
            v.push(two(TreeKind::Hqwt512, 4_720_000, 8));
        }
    }
    if id == "C01" || id == "C09" {
        // lengths next to 2^20 for the trees with prefetch support (one sample bit per 2048-symbol
        // superblock: the sample vectors are 511, 512 and 513 bits long)
        let around = |kind: TreeKind, n: usize, seed: u64| SeqCase {
            kind,
            ty: ElemTy::U8,
            how: How::FromVec,
            content: Content::Recipe(Recipe { n, alphabet: (0..40).collect(), profile: Profile::Uniform, arr: Arr::Shuffled, seed }),
            tie_seed: seed,
            plan_seed: seed,
        };
        v.push(around(TreeKind::Qwt256Pfs, (1 << 20) - 2048, 21));
        v.push(around(TreeKind::Qwt512Pfs, (1 << 20) - 2047, 22));
        if tier == Tier::Thorough {
            v.push(around(TreeKind::Qwt256Pfs, 1 << 20, 23));
            v.push(around(TreeKind::Qwt512Pfs, (1 << 20) + 1, 24));
            v.push(around(TreeKind::Qwt256Pfs, (1 << 21) - 2048, 25));
        }
    }
    if id == "C03" {
        // 24 binary levels in the quick tier, the full 32 in the thorough tier
        v.push(mk(TreeKind::Hwt, ElemTy::U16, 200_000, 2, Arr::Shuffled, 4));
        if tier == Tier::Thorough {
            v.push(mk(TreeKind::Hwt, ElemTy::U8, 9_227_464, 2, Arr::Shuffled, 5));
        }
    }
    v
}

/// number of levels the plain structures need for max symbol `mx`
pub fn plain_levels(kind: TreeKind, mx: u128) -> usize {
    let b = bitlen(mx).max(1) as usize;
    if kind.is_quad() {
        (b + 1) / 2
    } else {
        b
    }
}

pub fn huffman_shape(m: &SeqModel, kind: TreeKind) -> (u32, usize) {
    let counts: Vec<u64> = m.pos.values().map(|p| p.len() as u64).collect();
    let l = huffman_lengths(&counts, if kind.is_quad() { 4 } else { 2 });
    let mx = l.iter().copied().max().unwrap_or(0);
    let mut dl = l.clone();
    dl.sort_unstable();
    dl.dedup();
    (mx, dl.len())
}

impl Prop for SeqExact {
    type Case = SeqCase;
    fn id(&self) -> &'static str {
        self.id
    }
    fn strategy(&self, tier: Tier, _build: &str) -> BoxedStrategy<SeqCase> {
        let mut cfg = match tier {
            Tier::Quick => SeqGenCfg::quick(self.kinds),
            Tier::Thorough => SeqGenCfg::thorough(self.kinds),
        };
        if self.is_prefetch() {
            // several 2048-symbol sampling periods, >= 3 levels, lengths at the period boundaries
            cfg.large_weight = 7;
            cfg.min_large = 4_097;
            cfg.period_bias = Some(2048);
            cfg.min_max_symbol = Some(16);
        }
        seq_case(cfg)
    }
    fn cases(&self, tier: Tier, build: &str) -> u32 {
        match (tier, build) {
            (Tier::Thorough, "asan") if self.is_prefetch() => 8_000,
            (Tier::Quick, _) if self.is_prefetch() => 4_000,
            (Tier::Thorough, _) if self.is_prefetch() => 40_000,
            (Tier::Quick, "fast") => 30_000,
            (Tier::Quick, "noprefetch") => 6_000,
            (Tier::Quick, "native") => 4_000,
            (Tier::Thorough, "native") => 20_000,
            (Tier::Quick, "asan") => 2_000,
            (Tier::Quick, _) => 15_000,
            (Tier::Thorough, "fast") => 240_000,
            (Tier::Thorough, "noprefetch") => 30_000,
            (Tier::Thorough, "asan") => 10_000,
            (Tier::Thorough, _) => 60_000,
        }
    }
    fn builds(&self, _tier: Tier) -> Vec<&'static str> {
        if self.is_prefetch() {
            if _tier == Tier::Thorough { vec!["fast", "checked", "noprefetch", "asan"] } else { vec!["fast", "checked", "noprefetch"] }
        } else {
            // the crate feature `prefetch` must not matter for any answer: a smaller run without it;
            // `asan`: generated cases under AddressSanitizer (reads outside an allocation that
            // happen to give the right answer)
            // `native`: compiled with `-C target-cpu=native`
            vec!["fast", "checked", "noprefetch", "asan", "native"]
        }
    }
    fn fixed_in_asan(&self) -> bool { self.is_prefetch() }
    fn transcript_pairs(&self) -> Vec<(&'static str, &'static str)> {
        if self.is_prefetch() { vec![("fast", "noprefetch")] } else { vec![] }
    }
    fn rule(&self) -> &'static str {
        match self.id {
            "C01" => "cases = (alias, element type, construction path, sequence by shape generator, query plan seed); non-trivial = n >= 2, >= 2 distinct symbols and (>= 2 levels or n > 256); distinct = hash of the whole case",
            "C09" => "cases = sequence cases for the 8 quad aliases, 70% with n in 4097..=70000 (thorough 600000), half of those with n = k*2048 + {-1,0,1}, alphabets with max >= 16 (>= 3 levels), Huffman profiles with unequal level lengths; every (symbol, position) pair of the plan is asked through rank and rank_prefetch, positions n-1, n, n+1 for every symbol; non-trivial = type with prefetch support, >= 3 levels, n > 4096; distinct = hash of the whole case",
            "C02" => "cases as C01 for the four HQWT aliases with a generated Huffman tie seed; non-trivial = n >= 8, >= 3 distinct symbols and >= 2 distinct code lengths predicted by an independent 4-ary Huffman computation; distinct = hash of the whole case",
            _ => "cases as C01 for WT and HWT; non-trivial = n >= 2, >= 2 distinct symbols and >= 2 levels (plain: bit length of max; Huffman: predicted depth); distinct = hash of the whole case",
        }
    }
    fn sample(&self, c: &SeqCase) -> Value {
        abbreviate_seq(c)
    }
    fn simplify(&self, c: &SeqCase) -> Vec<SeqCase> {
        c.simplify()
    }
    fn fixed_cases(&self, tier: Tier) -> Vec<SeqCase> {
        // deepest codes that still fit the 32-bit code words: 16 quad levels need n >= 1 318 810
        // (cheapest profile), 32 binary levels n >= 9 227 464 (thorough tier only: ~0.5 GB, 10 s)
        deep_code_cases(self.id, tier)
    }
    fn run(&self, c: &SeqCase, ctx: &mut Ctx) -> CheckResult {
        let s = c.content.expand();
        let m = SeqModel::new(s.clone());
        // KF-2 (recorded finding): Huffman codes longer than 32 bits are kept in a u32. The signature
        // is a predicted code depth of more than 16 quad / 32 binary levels; such inputs need
        // n >= 1 318 811 (quad) / 9 227 465 (binary) and lie outside the generated range.
        if c.kind.is_huffman() && !ctx.strict && s.len() >= 1_318_811 {
            let (depth, _) = huffman_shape(&m, c.kind);
            if (c.kind.is_quad() && depth > 16) || (!c.kind.is_quad() && depth > 32) {
                ctx.excluded_known += 1;
                ctx.label("excluded:KF-2");
                return Ok(());
            }
        }
        let t = build_tree(c.kind, c.ty, c.how, &s, Some(c.tie_seed));
        label_seq(&m, c.kind, c.ty, ctx);
        ctx.label(&format!("how={}", crate::util::variant_name(&c.how)));
        if let crate::seqgen::Content::Recipe(r) = &c.content {
            ctx.label(&format!("arr={}", crate::util::variant_name(&r.arr)));
            ctx.label(&format!("profile={}", crate::util::variant_name(&r.profile)));
        }
        let n = m.n();
        let d = m.distinct();
        if c.kind.is_huffman() {
            let (depth, nlens) = huffman_shape(&m, c.kind);
            ctx.label(&format!("huff_depth={}", match depth { 0 => "0", 1 => "1", 2..=3 => "2-3", 4..=7 => "4-7", 8..=11 => "8-11", 12..=15 => "12-15", 16 => "16", 17..=23 => "17-23", 24..=32 => "24-32", _ => ">32" }));
            if nlens >= 2 {
                ctx.label("huff_unequal_lengths");
            }
            if d >= 1 && (d - 1) % 3 != 0 {
                ctx.label("alphabet!=3k+1");
            }
            ctx.nontrivial = if c.kind.is_quad() {
                n >= 8 && d >= 3 && nlens >= 2
            } else {
                n >= 2 && d >= 2 && depth >= 2
            };
        } else {
            let lv = m.max().map_or(0, |mx| plain_levels(c.kind, mx));
            ctx.nontrivial = n >= 2 && d >= 2 && (lv >= 2 || (c.kind.is_quad() && n > 256));
        }
        if self.is_prefetch() {
            let levels = if c.kind.is_huffman() { huffman_shape(&m, c.kind).0 as usize } else { m.max().map_or(0, |mx| plain_levels(c.kind, mx)) };
            ctx.nontrivial = c.kind.has_pfs() && levels >= 3 && n > 4096;
            if c.kind.has_pfs() { ctx.label("with-prefetch-support"); }
            if n > 0 && (n % 2048 <= 1 || n % 2048 == 2047) { ctx.label("n=k*2048+-1"); }
        }
        let o = SeqOpts { prefetch: true, unchecked: false, budget: if ctx.thorough { 60 } else { 40 }, full_get_upto: 3000 };
        check_tree(t.as_ref(), &m, c.plan_seed, o, ctx)?;
        // Huffman: a quarter of the cases are rebuilt with three further tie orders
        if c.kind.is_huffman() && c.plan_seed % 4 == 0 && n <= 20_000 {
            for extra in 1..=3u64 {
                let t2 = build_tree(c.kind, c.ty, c.how, &s, Some(c.tie_seed.wrapping_add(extra.wrapping_mul(0x9E37_79B9))));
                ctx.label("extra_tie_order");
                check_tree(t2.as_ref(), &m, c.plan_seed ^ extra, SeqOpts { budget: 10, full_get_upto: 600, ..o }, ctx)?;
            }
        }
        Ok(())
    }
}
