//! C14 (space bound of plain structures), C15 (entropy bound of Huffman trees), C16 (reported
//! space usage vs. retained memory), all measured with the counting allocator.
use crate::alloc::live;
use crate::bits::{BitsKind, BitsVal, BvHow, WrapHow};
use crate::elem::ElemTy;
use crate::model::SeqModel;
use crate::quads::{IntTy, QuadHow, QuadKind, QuadVal};
use crate::runner::{CheckResult, Ctx, Failure, Prop, Tier};
use crate::seqgen::{alphabet, Arr, Content, Profile, Recipe};
use crate::trees::{build_tree, DynSeq, How, TreeKind};
use crate::util::{bitlen, Rng};
use crate::{ensure, fail};
use proptest::prelude::*;
use serde::{Deserialize, Serialize};
use serde_json::{json, Value};

#[derive(Clone, Copy, Debug, PartialEq, Eq, Hash, Serialize, Deserialize)]
pub enum SpKind {
    Tree(TreeKind, ElemTy),
    Quad(QuadKind),
    Bits(BitsKind),
}

#[derive(Clone, Debug, PartialEq, Eq, Hash, Serialize, Deserialize)]
pub struct SpaceCase {
    pub kind: SpKind,
    /// construction path selector
    pub path: u8,
    /// sequence recipe (for bit / quad structures the symbols are reduced mod 2 / mod 4)
    pub recipe: Recipe,
    pub tie_seed: u64,
    /// BitVectorMut only: reserve this much extra capacity up front
    pub extra_capacity: u32,
    /// bit structures: the bits come from the bit generators (densities, runs, sparse / dense
    /// groups) instead of the parity of the recipe's symbols
    #[serde(default)]
    pub bits: Option<crate::bitgen::BitContent>,
}

impl SpaceCase {
    fn bit_vector(&self, s: &[u128]) -> Vec<bool> {
        match &self.bits {
            Some(b) => b.expand(),
            None => s.iter().map(|x| x & 1 == 1).collect(),
        }
    }
}

fn n_strategy(kmin: u32, kmax: u32, small: bool) -> BoxedStrategy<usize> {
    let big = (kmin..=kmax, prop_oneof![Just(-1i64), Just(0), Just(1), Just(2), Just(i64::MAX)])
        .prop_map(|(k, d)| {
            let p = 1i64 << k;
            (if d == i64::MAX { p + p / 2 } else { p + d }) as usize
        });
    if small {
        prop_oneof![3 => big, 1 => 0usize..=2000].boxed()
    } else {
        big.boxed()
    }
}

fn recipe(n: BoxedStrategy<usize>, cap: u128, profiles: BoxedStrategy<Profile>) -> BoxedStrategy<Recipe> {
    (n, alphabet(cap, 256), profiles, prop_oneof![3 => Just(Arr::Shuffled), 1 => Just(Arr::Sorted), 1 => (0u8..=10).prop_map(Arr::Runs), 2 => (any::<bool>(), 1u8..=9).prop_map(|(h, k)| Arr::Padded(h, k)), 1 => Just(Arr::Packed), 1 => Just(Arr::Periodic)], any::<u64>())
        .prop_map(|(n, alphabet, profile, arr, seed)| Recipe { n, alphabet, profile, arr, seed })
        .boxed()
}

/// bits for the bit structures: every density, runs, blocks, and DArray groups (sparse ones matter
/// for the overflow positions of DArray)
fn bit_content(max_n: usize) -> BoxedStrategy<crate::bitgen::BitContent> {
    prop_oneof![
        1 => crate::bitgen::explicit_bits(3000),
        5 => crate::bitgen::recipe_bits(3001, max_n),
        3 => crate::bitgen::groups_content(4),
    ]
    .boxed()
}

fn how_of(path: u8) -> How {
    match path % 5 {
        3 => How::CollectLoose((path / 5) % 64),
        4 => How::CollectLoose(64 + (path / 5) % 64),
        k => How::PATHS[k as usize],
    }
}

/// heap bytes retained by a tree built over `s` (the boxed struct included)
fn measure_tree(kind: TreeKind, ty: ElemTy, how: How, s: &[u128], tie: u64) -> (Box<dyn DynSeq>, usize) {
    let before = live();
    let t = build_tree(kind, ty, how, s, Some(tie));
    let after = live();
    (t, after.saturating_sub(before))
}

fn measure_bits(kind: BitsKind, path: u8, bits: &[bool], extra_capacity: usize) -> (BitsVal, usize) {
    let before = live();
    let v = if kind == BitsKind::Bvm && extra_capacity > 0 {
        // reserved capacity, filled completely / half / a quarter / not at all
        let mut m = qwt::BitVectorMut::with_capacity(bits.len() + extra_capacity);
        let take = match path % 4 { 0 => bits.len(), 1 => bits.len() / 2, 2 => bits.len() / 4, _ => 0 };
        for &b in &bits[..take] {
            m.push(b);
        }
        BitsVal::Bvm(m)
    } else {
        let (bh, wh) = match path % 9 {
            0 => (BvHow::Bools, WrapHow::New),
            1 => (BvHow::Pushes, WrapHow::From),
            2 => (BvHow::Bools, WrapHow::Collect),
            3 => (BvHow::Bools, WrapHow::From),
            // sources with an inexact size hint
            4 => (BvHow::BoolsLoose(path / 8), WrapHow::New),
            5 => (BvHow::BoolsLoose(64 + path / 8), WrapHow::Collect),
            6 => (BvHow::ExtendPieces(path / 8), WrapHow::From),
            7 => (BvHow::BoolsLoose(128 + path / 8), WrapHow::From),
            // a vector of zeros whose ones are set afterwards
            _ => (BvHow::ZerosThenSet, WrapHow::New),
        };
        BitsVal::build(kind, bh, wh, bits)
    };
    let after = live();
    (v, after.saturating_sub(before))
}

fn measure_quads(kind: QuadKind, path: u8, q: &[u8]) -> (QuadVal, usize) {
    let how = match path % 8 {
        0 => QuadHow::FromQVector(IntTy::U8),
        1 => QuadHow::NewSlice(IntTy::U8),
        2 => QuadHow::Collect(IntTy::U8),
        // a builder whose capacity hint over-estimates the length (x2.25 / x8)
        3 => QuadHow::Builder(9),
        4 => QuadHow::Builder(32),
        // sources with an inexact size hint
        5 => QuadHow::CollectLoose(IntTy::U8, path / 8),
        6 => QuadHow::CollectLoose(IntTy::U8, 64 + path / 8),
        _ => QuadHow::BuilderPieces(path / 8),
    };
    let before = live();
    let v = QuadVal::build(kind, how, q, 0);
    let after = live();
    (v, after.saturating_sub(before))
}

fn ratio(kind: TreeKind) -> f64 {
    if kind.block() == 256 { 1.0 / 8.0 } else { 1.0 / 16.0 }
}
fn per_level(kind: TreeKind) -> f64 {
    if kind.has_pfs() { 2048.0 } else { 1024.0 }
}

pub fn abbreviate_space(c: &SpaceCase) -> Value {
    json!({"type": format!("{:?}", c.kind), "path": c.path, "n": c.recipe.n, "alphabet_size": c.recipe.alphabet.len(),
           "max_symbol": c.recipe.alphabet.iter().max().map(|x| x.to_string()), "profile": format!("{:?}", c.recipe.profile), "arr": format!("{:?}", c.recipe.arr)})
}

/// histogram label for how much of a bound / tolerance was used
fn fill(ctx: &mut Ctx, what: &str, used: f64, limit: f64) {
    let r = if limit > 0.0 { used / limit } else { 0.0 };
    let b = if r < 0.25 { "<25%" } else if r < 0.5 { "25-50%" } else if r < 0.75 { "50-75%" } else if r < 0.9 { "75-90%" } else if r <= 1.0 { "90-100%" } else { ">100%" };
    ctx.label(&format!("{what} used {b}"));
}

fn need_allocator() -> CheckResult {
    ensure!(crate::alloc::installed(), "the counting allocator is not installed in this binary (harness error)");
    Ok(())
}

// ---------------------------------------------------------------------------------------------
pub struct C14;

impl Prop for C14 {
    type Case = SpaceCase;
    fn id(&self) -> &'static str { "C14" }
    fn builds(&self, _t: Tier) -> Vec<&'static str> { vec!["fast"] }
    fn strategy(&self, tier: Tier, _b: &str) -> BoxedStrategy<SpaceCase> {
        let kmax = if tier == Tier::Quick { 19 } else { 22 };
        let trees: Vec<SpKind> = [TreeKind::Qwt256, TreeKind::Qwt512, TreeKind::Qwt256Pfs, TreeKind::Qwt512Pfs, TreeKind::Wt]
            .iter()
            .flat_map(|&k| [ElemTy::U8, ElemTy::U16, ElemTy::U32, ElemTy::U64].into_iter().map(move |t| SpKind::Tree(k, t)))
            .collect();
        let others = vec![SpKind::Quad(QuadKind::Rs256), SpKind::Quad(QuadKind::Rs512), SpKind::Bits(BitsKind::Wide)];
        let kind = prop_oneof![4 => proptest::sample::select(trees), 1 => proptest::sample::select(others)];
        let budget: usize = if tier == Tier::Quick { 6_000_000 } else { 40_000_000 };
        let max_bits: usize = if tier == Tier::Quick { 1 << 20 } else { 1 << 23 };
        kind.prop_flat_map(move |kind| {
            let cap = match kind { SpKind::Tree(_, ty) => ty.max(), SpKind::Quad(_) => 3, SpKind::Bits(_) => 1 };
            let prof = prop_oneof![3 => Just(Profile::Uniform), 1 => (1u8..=2).prop_map(Profile::Zipf), 1 => (4u8..=7).prop_map(Profile::Geometric)].boxed();
            (Just(kind), any::<u8>(), recipe(n_strategy(12, kmax, true), cap, prof), any::<u64>())
        })
        .prop_flat_map(move |(kind, path, recipe, tie_seed)| (Just((kind, path, recipe, tie_seed)), bit_content(max_bits)))
        .prop_map(move |((kind, path, mut recipe, tie_seed), bits)| {
            // bound n * levels
            let levels = match kind {
                SpKind::Tree(k, _) => {
                    let mx = recipe.alphabet.iter().copied().max().unwrap_or(0);
                    crate::props::seqexact::plain_levels(k, mx)
                }
                _ => 1,
            };
            while recipe.n * levels > budget && recipe.n > 4096 {
                recipe.n = recipe.n / 2 + 1;
            }
            let bits = if matches!(kind, SpKind::Bits(_)) { Some(bits) } else { None };
            SpaceCase { kind, path, recipe, tie_seed, extra_capacity: 0, bits }
        })
        .boxed()
    }
    fn cases(&self, tier: Tier, _b: &str) -> u32 {
        if tier == Tier::Quick { 4_000 } else { 24_000 }
    }
    fn assumptions(&self) -> Vec<String> {
        vec!["retained memory = bytes requested from the global allocator (Layout::size) and still live after construction; allocator-internal fragmentation is not counted".into(),
             "constants of the bound: factor 1 + r + 0.01 (r = 1/8 for block 256, 1/16 for 512), 1024 B per level (2048 with prefetch support) + 256 B; binary: 1.05 and 512 B per level".into()]
    }
    fn rule(&self) -> &'static str {
        "cases = (QWT256/512(+Pfs) or WT over u8..u64, or RSQVector256/512 or RSWide alone; construction path new / From<Vec> / collect; recipe with n = 2^k + {-1,0,1,2, 2^(k-1)} for k = 12..19 (22 thorough) or a small n <= 2000; alphabets giving 1..32 levels); oracle = live heap bytes after construction <= (1+r+0.01) * n*L/4 + K*L + 256 (binary: 1.05 * n*bitlen(max)/8 + 512*levels + 256), with L = ceil(bitlen(max)/2) also asserted against n_levels(); non-trivial = n*L >= 2^17; distinct = hash of the case"
    }
    fn sample(&self, c: &SpaceCase) -> Value { abbreviate_space(c) }
    fn run(&self, c: &SpaceCase, ctx: &mut Ctx) -> CheckResult {
        need_allocator()?;
        let s = c.recipe.expand();
        let n = s.len();
        ctx.label(&format!("{:?}", c.kind).chars().take(22).collect::<String>());
        ctx.q();
        match c.kind {
            SpKind::Tree(kind, ty) => {
                let mx = s.iter().copied().max().unwrap_or(0);
                let how = how_of(c.path);
                let (t, h) = measure_tree(kind, ty, how, &s, c.tie_seed);
                let levels = if n == 0 { 0 } else { crate::props::seqexact::plain_levels(kind, mx) };
                ensure!(n == 0 || t.n_levels() == levels, "{}<{}>: n_levels() = {}, expected {} for max symbol {}", kind.name(), ty.name(), t.n_levels(), levels, mx);
                ensure!(t.len() == n, "len");
                let l = levels.max(1) as f64;
                let bound = if kind.is_quad() {
                    (1.0 + ratio(kind) + 0.01) * (n as f64) * l / 4.0 + per_level(kind) * l + 256.0
                } else {
                    1.05 * (n as f64) * l / 8.0 + 512.0 * l + 256.0
                };
                ctx.label(&format!("levels={}", match levels { 0..=1 => "0-1", 2..=4 => "2-4", 5..=8 => "5-8", 9..=16 => "9-16", _ => ">16" }));
                ctx.nontrivial = n * levels >= 1 << 17;
                if ctx.nontrivial { fill(ctx, "bound", h as f64, bound); }
                ensure!((h as f64) <= bound, "{}<{}> built with {:?}: retains {} bytes for n = {}, {} levels (max symbol {}); bound {:.0} bytes (ideal {:.0})",
                    kind.name(), ty.name(), how, h, n, levels, mx, bound, n as f64 * l / if kind.is_quad() { 4.0 } else { 8.0 });
                // "prefetch support adds well under 1%": against the same tree without it
                if kind.has_pfs() {
                    let base = if kind == TreeKind::Qwt256Pfs { TreeKind::Qwt256 } else { TreeKind::Qwt512 };
                    let (_t0, h0) = measure_tree(base, ty, how, &s, c.tie_seed);
                    let extra = h as f64 - h0 as f64;
                    let allowed = 0.006 * h0 as f64 + 1100.0 * l;
                    ctx.label("pfs-differential");
                    ensure!(extra <= allowed, "{}<{}>: prefetch support adds {:.0} bytes to the {} bytes of {} (n = {}, {} levels): more than 0.6% + 1100 B per level",
                        kind.name(), ty.name(), extra, h0, base.name(), n, levels);
                }
            }
            SpKind::Quad(kind) => {
                let q: Vec<u8> = s.iter().map(|x| (*x & 3) as u8).collect();
                let (v, h) = measure_quads(kind, c.path, &q);
                ensure!(v.len() == n, "len");
                let r = if kind == QuadKind::Rs256 { 1.0 / 8.0 } else { 1.0 / 16.0 };
                let bound = (1.0 + r + 0.01) * n as f64 / 4.0 + 1024.0 + 256.0;
                ctx.nontrivial = n >= 1 << 17;
                if ctx.nontrivial { fill(ctx, "bound", h as f64, bound); }
                ensure!((h as f64) <= bound, "{}: retains {} heap bytes for n = {}; bound {:.0}", kind.name(), h, n, bound);
            }
            SpKind::Bits(kind) => {
                let b: Vec<bool> = c.bit_vector(&s);
                let n = b.len();
                let (v, h) = measure_bits(kind, c.path, &b, 0);
                ensure!(v.len() == Some(n), "len");
                let bound = 1.05 * n as f64 / 8.0 + 512.0 + 256.0;
                ctx.nontrivial = n >= 1 << 17;
                ensure!((h as f64) <= bound, "{}: retains {} heap bytes for n = {} bits; bound {:.0}", kind.name(), h, n, bound);
            }
        }
        let _ = unreachable_fail;
        Ok(())
    }
}

// ---------------------------------------------------------------------------------------------
pub struct C15;

impl Prop for C15 {
    type Case = SpaceCase;
    fn id(&self) -> &'static str { "C15" }
    fn builds(&self, _t: Tier) -> Vec<&'static str> { vec!["fast"] }
    fn strategy(&self, tier: Tier, _b: &str) -> BoxedStrategy<SpaceCase> {
        let kmax = if tier == Tier::Quick { 18 } else { 20 };
        let kinds: Vec<SpKind> = [TreeKind::Hqwt256, TreeKind::Hqwt512, TreeKind::Hqwt256Pfs, TreeKind::Hqwt512Pfs, TreeKind::Hwt]
            .iter()
            .flat_map(|&k| [ElemTy::U8, ElemTy::U16, ElemTy::U32].into_iter().map(move |t| SpKind::Tree(k, t)))
            .collect();
        (proptest::sample::select(kinds), any::<u8>(), any::<u64>())
            .prop_flat_map(move |(kind, path, tie)| {
                let cap = match kind { SpKind::Tree(_, ty) => ty.max().min(4095), _ => 255 };
                let prof = prop_oneof![
                    2 => Just(Profile::Uniform), 2 => (1u8..=7).prop_map(Profile::Geometric), 2 => (1u8..=3).prop_map(Profile::Zipf),
                    1 => Just(Profile::OneRare), 1 => Just(Profile::TwoFrequent), 1 => Just(Profile::Fib), 1 => Just(Profile::Deep(4)), 1 => Just(Profile::Deep(2)), 1 => (1u8..=4).prop_map(Profile::Ties), 1 => prop_oneof![Just(8u8), 2u8..20].prop_map(Profile::HeavyTied)
                ].boxed();
                (Just(kind), Just(path), recipe(n_strategy(14, kmax, true), cap, prof), Just(tie))
            })
            .prop_map(|(kind, path, recipe, tie_seed)| SpaceCase { kind, path, recipe, tie_seed, extra_capacity: 0, bits: None })
            .boxed()
    }
    fn cases(&self, tier: Tier, _b: &str) -> u32 {
        if tier == Tier::Quick { 3_000 } else { 16_000 }
    }
    fn assumptions(&self) -> Vec<String> {
        vec!["level data is not observable through the public API: it is bounded through the retained heap minus explicit allowances (relative rank/select overhead as in C14, K bytes per level, table allowance T = 64*(max symbol+1) + 4096 bytes)".into()]
    }
    fn rule(&self) -> &'static str {
        "cases = (HQWT256/512(+Pfs) or HWT over u8/u16/u32, construction path, recipe with n = 2^k + d for k = 14..18 (20 thorough) or small n, alphabets of 1..256 symbols with max symbol <= 4095, profiles uniform/geometric/Zipf/one dominant/two frequent/Fibonacci/deepest-code/ties, tie seed); oracle = live heap bytes H of the Huffman tree <= (1+r+0.01) * n*(H0+2)/8 + K*levels + T (binary: 1.05 * n*(H0+1)/8 + 512*levels + T) with H0 computed from the input, and H <= heap of the plain tree built from the same input in the same process + K*levels + T; non-trivial = n >= 2^16 and H0 + 2 <= 0.75 * plain bits per symbol; distinct = hash of the case"
    }
    fn sample(&self, c: &SpaceCase) -> Value { abbreviate_space(c) }
    fn fixed_cases(&self, tier: Tier) -> Vec<SpaceCase> {
        // deepest supported codes (16 quad levels; 32 binary levels in the thorough tier)
        let alpha: Vec<u128> = (0..64).collect();
        let mk = |kind, ty, n, k, arr, seed| SpaceCase {
            kind: SpKind::Tree(kind, ty), path: 1,
            recipe: Recipe { n, alphabet: alpha.clone(), profile: Profile::Deep(k), arr, seed },
            tie_seed: seed, extra_capacity: 0, bits: None,
        };
        #[allow(unused_mut)]
        let mut v = vec![
            mk(TreeKind::Hqwt256, ElemTy::U8, 1_318_810, 4, Arr::Shuffled, 2),
            mk(TreeKind::Hwt, ElemTy::U16, 300_000, 2, Arr::Shuffled, 3),
            // long non-stationary inputs: several 2^20-symbol stretches with different mixes
            mk(TreeKind::Hqwt512, ElemTy::U8, 3_000_000, 4, Arr::Sorted, 4),
            mk(TreeKind::Hqwt256Pfs, ElemTy::U8, 2_500_000, 2, Arr::Padded(true, 7), 5),
        ];
        // a dominant symbol (75 %) that fills the first three quarters of a 4M-symbol input and is
        // rare afterwards: counting schemes that work block-wise must still see the global counts
        for (kind, seed) in [(TreeKind::Hqwt256, 8u64), (TreeKind::Hwt, 10)] {
            v.push(SpaceCase {
                kind: SpKind::Tree(kind, ElemTy::U8), path: 0,
                recipe: Recipe { n: 4_000_000, alphabet: alpha.clone(), profile: Profile::Geometric(2), arr: Arr::Padded(true, 9), seed },
                tie_seed: seed, extra_capacity: 0, bits: None,
            });
        }
        // dense alphabets of 4^k (2^k) symbols, one of them k times as frequent as the others,
        // which are exactly tied
        for (kind, sigma, k, n, seed) in [(TreeKind::Hqwt256, 16u128, 8u8, 460_000usize, 14u64), (TreeKind::Hqwt512, 64, 8, 500_000, 15), (TreeKind::Hqwt256Pfs, 16, 3, 300_000, 16), (TreeKind::Hwt, 32, 5, 300_000, 17)] {
            v.push(SpaceCase {
                kind: SpKind::Tree(kind, ElemTy::U8), path: 0,
                recipe: Recipe { n, alphabet: (0..sigma).collect(), profile: Profile::HeavyTied(k), arr: Arr::Shuffled, seed },
                tie_seed: seed, extra_capacity: 0, bits: None,
            });
        }
        // one symbol with just over 2^20 (2^21) occurrences among 200 others
        for (kind, lg, n, seed) in [(TreeKind::Hwt, 20u8, 1_350_000usize, 11u64), (TreeKind::Hqwt256, 20, 1_350_000, 12), (TreeKind::Hwt, 21, 2_400_000, 13)] {
            v.push(SpaceCase {
                kind: SpKind::Tree(kind, ElemTy::U8), path: 0,
                recipe: Recipe { n, alphabet: (0..201).collect(), profile: Profile::DominantAt(lg, 100), arr: Arr::Shuffled, seed },
                tie_seed: seed, extra_capacity: 0, bits: None,
            });
        }
        if tier == Tier::Thorough {
            v.push(mk(TreeKind::Hwt, ElemTy::U8, 9_227_464, 2, Arr::Shuffled, 6));
            v.push(mk(TreeKind::Hwt, ElemTy::U8, 8_400_000, 2, Arr::Padded(true, 7), 7));
        }
        v
    }
    fn run(&self, c: &SpaceCase, ctx: &mut Ctx) -> CheckResult {
        need_allocator()?;
        let SpKind::Tree(kind, ty) = c.kind else { fail!("C15 case without a tree kind") };
        let s = c.recipe.expand();
        let n = s.len();
        let m = SeqModel::new(s.clone());
        let h0 = m.h0();
        let mx = m.max().unwrap_or(0);
        let how = how_of(c.path);
        let (t, h) = measure_tree(kind, ty, how, &s, c.tie_seed);
        ensure!(t.len() == n, "{}: len() = {}, expected {n}", kind.name(), t.len());
        let levels = t.n_levels() as f64;
        let table = 64.0 * (mx as f64 + 1.0) + 4096.0;
        let (bound, plain_kind) = if kind.is_quad() {
            ((1.0 + ratio(kind) + 0.01) * n as f64 * (h0 + 2.0) / 8.0 + per_level(kind) * levels + table,
             match kind { TreeKind::Hqwt256 => TreeKind::Qwt256, TreeKind::Hqwt512 => TreeKind::Qwt512, TreeKind::Hqwt256Pfs => TreeKind::Qwt256Pfs, _ => TreeKind::Qwt512Pfs })
        } else {
            (1.05 * n as f64 * (h0 + 1.0) / 8.0 + 512.0 * levels + table, TreeKind::Wt)
        };
        ctx.q();
        ctx.label(kind.name());
        ctx.label(&format!("profile={}", crate::util::variant_name(&c.recipe.profile)));
        if n >= 1 << 16 { fill(ctx, "entropy bound", h as f64, bound); }
        ensure!((h as f64) <= bound, "{}<{}>: retains {} bytes for n = {}, H0 = {:.3} bits/symbol, {} levels, max symbol {}; entropy bound {:.0} bytes",
            kind.name(), ty.name(), h, n, h0, levels, mx, bound);
        // never larger than the plain tree over the same input
        let (pt, hp) = measure_tree(plain_kind, ty, how, &s, 0);
        let plain_levels = pt.n_levels().max(1);
        let slack = if kind.is_quad() { per_level(kind) } else { 512.0 } * levels + table;
        ensure!((h as f64) <= hp as f64 + slack, "{}<{}>: retains {} bytes but the plain {} over the same input retains {} (n = {}, H0 = {:.3}, allowance {:.0})",
            kind.name(), ty.name(), h, plain_kind.name(), hp, n, h0, slack);
        let plain_bits = if kind.is_quad() { 2 * plain_levels } else { plain_levels } as f64;
        ctx.nontrivial = n >= 1 << 16 && h0 + 2.0 <= 0.75 * plain_bits;
        if ctx.nontrivial { ctx.label("compressible"); }
        Ok(())
    }
}

// ---------------------------------------------------------------------------------------------
pub struct C16;

fn all_space_kinds() -> Vec<SpKind> {
    let mut v = Vec::new();
    for k in TreeKind::ALL {
        for t in [ElemTy::U8, ElemTy::U16, ElemTy::U32, ElemTy::U64, ElemTy::Usize, ElemTy::U128] {
            v.push(SpKind::Tree(k, t));
        }
    }
    for _ in 0..6 {
        for k in [QuadKind::Qv, QuadKind::Rs256, QuadKind::Rs512] {
            v.push(SpKind::Quad(k));
        }
        for k in BitsKind::ALL {
            v.push(SpKind::Bits(k));
        }
    }
    v
}

/// (reported, actual) of one value
fn reported_actual_tree(t: &dyn DynSeq, heap: usize) -> (usize, usize) {
    (t.space_usage_byte(), heap) // the boxed struct is part of the measured heap
}

impl Prop for C16 {
    type Case = SpaceCase;
    fn id(&self) -> &'static str { "C16" }
    fn builds(&self, _t: Tier) -> Vec<&'static str> { vec!["fast"] }
    fn strategy(&self, tier: Tier, _b: &str) -> BoxedStrategy<SpaceCase> {
        let kmax = if tier == Tier::Quick { 18 } else { 21 };
        let budget: usize = if tier == Tier::Quick { 4_000_000 } else { 30_000_000 };
        let max_bits: usize = if tier == Tier::Quick { 1 << 20 } else { 1 << 23 };
        (proptest::sample::select(all_space_kinds()), any::<u8>(), any::<u64>(), prop_oneof![2 => Just(0u32), 1 => 1u32..100_000])
            .prop_flat_map(move |(kind, path, tie, extra)| {
                let cap = match kind {
                    SpKind::Tree(k, ty) => if k.is_huffman() { ty.max().min(1 << 16) } else { ty.max() },
                    SpKind::Quad(_) => 3,
                    SpKind::Bits(_) => 1,
                };
                let prof = prop_oneof![3 => Just(Profile::Uniform), 1 => (1u8..=7).prop_map(Profile::Geometric), 1 => (1u8..=2).prop_map(Profile::Zipf), 1 => Just(Profile::OneRare)].boxed();
                let n = prop_oneof![2 => n_strategy(12, kmax, true), 1 => 0usize..=70_000].boxed();
                (Just(kind), Just(path), recipe(n, cap, prof), Just(tie), Just(extra))
            })
            .prop_flat_map(move |(kind, path, recipe, tie_seed, extra_capacity)| (Just((kind, path, recipe, tie_seed, extra_capacity)), bit_content(max_bits)))
            .prop_map(move |((kind, path, mut recipe, tie_seed, extra_capacity), bits)| {
                let levels = match kind {
                    SpKind::Tree(k, ty) => if k.is_huffman() { 10 } else { crate::props::seqexact::plain_levels(k, recipe.alphabet.iter().copied().max().unwrap_or(0)).min(ty.bits() as usize) },
                    _ => 1,
                };
                while recipe.n * levels > budget && recipe.n > 4096 {
                    recipe.n = recipe.n / 2 + 1;
                }
                let bits = if matches!(kind, SpKind::Bits(_)) { Some(bits) } else { None };
                SpaceCase { kind, path, recipe, tie_seed, extra_capacity, bits }
            })
            .boxed()
    }
    fn cases(&self, tier: Tier, _b: &str) -> u32 {
        if tier == Tier::Quick { 8_000 } else { 60_000 }
    }
    fn assumptions(&self) -> Vec<String> {
        vec!["retained memory = live bytes requested from the global allocator + size_of_val of the value".into(),
             "tolerance: 2% of the actual size + 128 B + 96 B per component (level; x2 with prefetch support); Huffman trees additionally 2304 B + 48 B per symbol value up to the largest".into()]
    }
    fn rule(&self) -> &'static str {
        "cases = (any SpaceUsage type: 10 tree kinds x 6 element types, QVector, RSQVector256/512, BitVector, BitVectorMut (also with reserved excess capacity), RSNarrow, RSWide, DArray<false/true>; construction path; recipe with n = 2^k + d or free n); oracle = |space_usage_byte() - (live heap bytes + size_of_val)| <= 2% + 128 + 96*components (+ Huffman table slack); KiB/MiB/GiB variants = bytes / 1024^k within 1e-12; differential isolation on identical content (5% of the difference + 64 B): QWT256Pfs - QWT256, RSQVector - QVector, RSNarrow/RSWide - BitVector, DArray<true> - DArray<false>; non-trivial = actual size >= 64 KiB; distinct = hash of the case"
    }
    fn sample(&self, c: &SpaceCase) -> Value { abbreviate_space(c) }
    fn run(&self, c: &SpaceCase, ctx: &mut Ctx) -> CheckResult {
        need_allocator()?;
        let s = c.recipe.expand();
        let n = s.len();
        ctx.q();
        let check_scaled = |r: usize, sc: (f64, f64, f64), who: &str| -> CheckResult {
            let b = r as f64;
            for (name, got, div) in [("KiB", sc.0, 1024.0), ("MiB", sc.1, 1024.0 * 1024.0), ("GiB", sc.2, 1024.0 * 1024.0 * 1024.0)] {
                let e = b / div;
                ensure!((got - e).abs() <= 1e-12 * e.abs().max(1e-300) + f64::MIN_POSITIVE, "{who}: space_usage_{name}() = {got}, expected {e} (= {r} bytes / {div})");
            }
            Ok(())
        };
        let within = |r: usize, a: usize, comps: usize, extra: f64, who: &str| -> CheckResult {
            let tol = 0.02 * a as f64 + 128.0 + 96.0 * comps as f64 + extra;
            let d = r as f64 - a as f64;
            ensure!(d.abs() <= tol, "{who}: space_usage_byte() = {r} but the value keeps {a} bytes alive (difference {d:.0}, tolerance {tol:.0}; n = {n})");
            Ok(())
        };
        let diff_close = |dr: i64, da: i64, who: &str| -> CheckResult {
            let tol = 0.05 * (da.abs() as f64) + 64.0;
            ensure!(((dr - da).abs() as f64) <= tol, "{who}: reported sizes differ by {dr} bytes, retained sizes by {da} bytes (tolerance {tol:.0}; n = {n})");
            Ok(())
        };
        match c.kind {
            SpKind::Tree(kind, ty) => {
                let mx = s.iter().copied().max().unwrap_or(0);
                let how = how_of(c.path);
                let (t, h) = measure_tree(kind, ty, how, &s, c.tie_seed);
                let who = format!("{}<{}>", kind.name(), ty.name());
                let (r, a) = reported_actual_tree(t.as_ref(), h);
                let comps = t.n_levels().max(1) * if kind.has_pfs() { 2 } else { 1 };
                let extra = if kind.is_huffman() { 2304.0 + 48.0 * (mx as f64 + 1.0) } else { 0.0 };
                ctx.label(kind.name());
                ctx.nontrivial = a >= 64 * 1024;
                within(r, a, comps, extra, &who)?;
                check_scaled(r, t.space_scaled(), &who)?;
                // differential: prefetch support on identical content
                if kind.has_pfs() && !kind.is_huffman() {
                    let base = if kind == TreeKind::Qwt256Pfs { TreeKind::Qwt256 } else { TreeKind::Qwt512 };
                    let (t0, h0) = measure_tree(base, ty, how, &s, c.tie_seed);
                    diff_close(r as i64 - t0.space_usage_byte() as i64, h as i64 - h0 as i64, &format!("{who} minus {}", base.name()))?;
                    ctx.label("diff-pfs");
                }
            }
            SpKind::Quad(kind) => {
                let q: Vec<u8> = s.iter().map(|x| (*x & 3) as u8).collect();
                let (v, h) = measure_quads(kind, c.path, &q);
                let who = kind.name();
                let (r, a) = (v.space_usage_byte(), h + v.size_of_val());
                ctx.label(who);
                ctx.nontrivial = a >= 64 * 1024;
                within(r, a, 1, 0.0, who)?;
                check_scaled(r, v.space_scaled(), who)?;
                if kind != QuadKind::Qv {
                    let (v0, h0) = measure_quads(QuadKind::Qv, c.path, &q);
                    diff_close(r as i64 - v0.space_usage_byte() as i64, a as i64 - (h0 + v0.size_of_val()) as i64, &format!("{who} minus QVector"))?;
                    ctx.label("diff-rsq");
                }
            }
            SpKind::Bits(kind) => {
                let b: Vec<bool> = c.bit_vector(&s);
                let (v, h) = measure_bits(kind, c.path, &b, c.extra_capacity as usize);
                let who = kind.name();
                let (r, a) = (v.space_usage_byte(), h + v.size_of_val());
                ctx.label(who);
                if kind == BitsKind::Bvm && c.extra_capacity > 0 { ctx.label("bvm-excess-capacity"); }
                ctx.nontrivial = a >= 64 * 1024;
                within(r, a, if matches!(kind, BitsKind::Da0 | BitsKind::Da1) { 6 } else { 2 }, 0.0, who)?;
                check_scaled(r, v.space_scaled(), who)?;
                let base = match kind {
                    BitsKind::Narrow | BitsKind::Wide => Some(BitsKind::Bv),
                    BitsKind::Da1 => Some(BitsKind::Da0),
                    _ => None,
                };
                if let Some(bk) = base {
                    let (v0, h0) = measure_bits(bk, c.path, &b, 0);
                    diff_close(r as i64 - v0.space_usage_byte() as i64, a as i64 - (h0 + v0.size_of_val()) as i64, &format!("{who} minus {}", bk.name()))?;
                    ctx.label("diff-bits");
                }
                // containers: the blanket impls for Box<[T]> and Vec<T> over values of unequal size
                if c.path % 4 == 1 && c.extra_capacity == 0 {
                    use qwt::SpaceUsage;
                    let mut cuts: Vec<usize> = vec![0, b.len().min(70), b.len() / 3, b.len()];
                    cuts.sort_unstable();
                    macro_rules! boxed {
                        ($mk:expr) => {{
                            let before = live();
                            let bx = cuts.windows(2).map(|w| $mk(&b[w[0]..w[1]])).collect::<Vec<_>>().into_boxed_slice();
                            let heap = live().saturating_sub(before);
                            (bx.space_usage_byte(), heap + std::mem::size_of_val(&bx))
                        }};
                    }
                    let (rb, ab) = match kind {
                        BitsKind::Bv => boxed!(|p: &[bool]| p.iter().copied().collect::<qwt::BitVector>()),
                        BitsKind::Bvm => boxed!(|p: &[bool]| p.iter().copied().collect::<qwt::BitVectorMut>()),
                        BitsKind::Narrow => boxed!(|p: &[bool]| qwt::RSNarrow::new(p.iter().copied().collect())),
                        BitsKind::Wide => boxed!(|p: &[bool]| qwt::RSWide::new(p.iter().copied().collect())),
                        BitsKind::Da0 => boxed!(|p: &[bool]| qwt::DArray::<false>::new(p.iter().copied().collect())),
                        BitsKind::Da1 => boxed!(|p: &[bool]| qwt::DArray::<true>::new(p.iter().copied().collect())),
                    };
                    within(rb, ab, 3 * if matches!(kind, BitsKind::Da0 | BitsKind::Da1) { 6 } else { 2 }, 0.0, &format!("Box<[{who}]> of 3 values of unequal size"))?;
                    let before = live();
                    let mut words: Vec<u64> = Vec::with_capacity(b.len() / 64 + 1 + (c.path as usize) * 8);
                    words.extend((0..b.len() / 64).map(|i| i as u64));
                    let heap = live().saturating_sub(before);
                    within(words.space_usage_byte(), heap + std::mem::size_of_val(&words), 1, 0.0, "Vec<u64> with spare capacity")?;
                    ctx.label("containers");
                }
                // DArray<true> written with serde and read back as DArray<false> (the const
                // parameter is not part of the format): the zero inventories stay alive
                if kind == BitsKind::Da0 && c.path % 4 == 2 {
                    use qwt::SpaceUsage;
                    let full = qwt::DArray::<true>::new(b.iter().copied().collect());
                    let bytes = bincode::serialize(&full).map_err(|e| Failure::new(format!("DArray<true>: serialize failed: {e}")))?;
                    drop(full);
                    let before = live();
                    let back: qwt::DArray<false> = bincode::deserialize(&bytes).map_err(|e| Failure::new(format!("DArray<false> from the bytes of DArray<true>: deserialize failed: {e}")))?;
                    let heap = live().saturating_sub(before);
                    within(back.space_usage_byte(), heap + std::mem::size_of_val(&back), 6, 0.0, "DArray<false> deserialized from the bytes of a DArray<true>")?;
                    ctx.label("da-cross-deserialize");
                }
            }
        }
        let _ = (Rng::new(0), bitlen(0), Content::Explicit(vec![]), |_: Failure| ());
        Ok(())
    }
}

#[allow(dead_code)]
fn unreachable_fail() -> CheckResult {
    fail!("unreachable")
}
