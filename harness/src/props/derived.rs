//! C10 (unchecked == checked), C11 (serialization round trip): properties over every structure.
use crate::anycase::{any_case, AnyCase, AnyOpts};
use crate::runner::{CheckResult, Ctx, Prop, Tier};
use crate::trees::TreeKind;
use crate::{ensure, fail};
use proptest::strategy::BoxedStrategy;
use serde_json::Value;

pub struct C10;

impl Prop for C10 {
    type Case = AnyCase;
    fn id(&self) -> &'static str { "C10" }
    fn strategy(&self, tier: Tier, _b: &str) -> BoxedStrategy<AnyCase> {
        any_case(tier, (5, 3, 2), &TreeKind::ALL)
    }
    fn cases(&self, tier: Tier, build: &str) -> u32 {
        match (tier, build) {
            (Tier::Quick, "asan") => 4_000,
            (Tier::Thorough, "asan") => 30_000,
            (Tier::Quick, _) => 24_000,
            (Tier::Thorough, _) => 120_000,
        }
    }
    // `asan`: the unchecked twins under AddressSanitizer (valid arguments must not read outside
    // an allocation either)
    fn builds(&self, _tier: Tier) -> Vec<&'static str> { vec!["fast", "checked", "asan"] }
    fn transcript_pairs(&self) -> Vec<(&'static str, &'static str)> {
        vec![("fast", "checked")]
    }
    fn rule(&self) -> &'static str {
        "cases = any structure (10 tree kinds x 6 element types, BitVector, BitVectorMut, RSNarrow, RSWide, DArray<false/true>, QVector, RSQVector256/512) built from the shared generators; for every argument tuple of the query plan for which the model says the documented precondition holds, the unchecked twin (get/rank/select/rank_prefetch/rank1/rank0/select1/select0/occs/occs_smaller/get_bits _unchecked) must return the checked answer; builds fast and checked, whose per-case answer digests must also agree; non-trivial = n > 1 and at least two distinct element values; distinct = hash of the whole case"
    }
    fn sample(&self, c: &AnyCase) -> Value { c.sample() }
    fn simplify(&self, c: &AnyCase) -> Vec<AnyCase> { c.simplify() }
    fn run(&self, c: &AnyCase, ctx: &mut Ctx) -> CheckResult {
        let v = c.build();
        ctx.label(&c.type_name());
        ctx.nontrivial = match &v {
            crate::anycase::AnyVal::Seq(_, m) => m.n() > 1 && m.distinct() >= 2,
            crate::anycase::AnyVal::Bits(_, m) => m.n() > 1 && !m.ones.is_empty() && !m.zeros.is_empty(),
            crate::anycase::AnyVal::Quad(_, m) => m.n() > 1 && (0..4).filter(|&s| m.occs(s) > 0).count() >= 2,
        };
        v.check(c.plan_seed(), AnyOpts::new(true, if ctx.thorough { 60 } else { 40 }, false), ctx)
    }
}

pub struct C11;

impl Prop for C11 {
    type Case = AnyCase;
    fn id(&self) -> &'static str { "C11" }
    fn strategy(&self, tier: Tier, _b: &str) -> BoxedStrategy<AnyCase> {
        any_case(tier, (5, 3, 2), &TreeKind::ALL)
    }
    fn cases(&self, tier: Tier, build: &str) -> u32 {
        match (tier, build) {
            (Tier::Quick, "fast") => 20_000,
            (Tier::Quick, "asan") => 1_600,
            (Tier::Quick, _) => 8_000,
            (Tier::Thorough, "fast") => 120_000,
            (Tier::Thorough, "asan") => 8_000,
            (Tier::Thorough, _) => 30_000,
        }
    }
    fn builds(&self, _tier: Tier) -> Vec<&'static str> { vec!["fast", "checked", "asan"] }
    fn rule(&self) -> &'static str {
        "cases = any serializable structure built from the shared generators (empty and default values included); bincode::serialize must succeed, deserialize must succeed, the result must == the original, serialize again to identical bytes, report the same space usage and produce the same digest over the whole query plan as the original (which is itself compared with the model); non-trivial = non-empty value with more than one level / more than 512 elements; distinct = hash of the whole case"
    }
    fn sample(&self, c: &AnyCase) -> Value { c.sample() }
    fn simplify(&self, c: &AnyCase) -> Vec<AnyCase> { c.simplify() }
    fn fixed_cases(&self, tier: Tier) -> Vec<AnyCase> {
        // a Huffman tree with 16-level (32-bit) code words must round-trip too
        crate::props::seqexact::deep_code_cases("C02", tier).into_iter().take(1)
            .chain(crate::props::seqexact::deep_code_cases("C03", tier))
            .map(AnyCase::Seq).collect()
    }
    fn run(&self, c: &AnyCase, ctx: &mut Ctx) -> CheckResult {
        let v = c.build();
        let who = c.type_name();
        ctx.label(&who);
        ctx.nontrivial = match &v {
            crate::anycase::AnyVal::Seq(t, m) => m.n() > 0 && t.n_levels() >= 2,
            other => other.n() > 512,
        };
        crate::util::note("serialize", 0, 0, 0);
        let bytes = match v.ser() {
            Ok(b) => b,
            Err(e) => fail!("{who}: bincode::serialize failed: {e}"),
        };
        crate::util::note("deserialize", bytes.len() as u128, 0, 0);
        let w = match v.de_same(&bytes) {
            Ok(w) => w,
            Err(e) => fail!("{who}: bincode::deserialize of its own serialization failed: {e}"),
        };
        ctx.q();
        ensure!(w.eq_val(&v), "{who}: deserialized value != original (n = {})", v.n());
        ensure!(v.eq_val(&w), "{who}: original != deserialized value (n = {})", v.n());
        let bytes2 = match w.ser() {
            Ok(b) => b,
            Err(e) => fail!("{who}: serializing the deserialized value failed: {e}"),
        };
        ensure!(bytes2 == bytes, "{who}: serialize(deserialize(bytes)) differs from bytes ({} vs {} bytes)", bytes2.len(), bytes.len());
        ensure!(w.space_usage_byte() == v.space_usage_byte(), "{who}: space_usage_byte differs after the round trip: {} vs {}", w.space_usage_byte(), v.space_usage_byte());
        let o = AnyOpts::new(false, if ctx.thorough { 50 } else { 30 }, true);
        let mut c1 = Ctx { build: ctx.build.clone(), ..Ctx::default() };
        v.check(c.plan_seed(), o, &mut c1)?;
        let mut c2 = Ctx { build: ctx.build.clone(), ..Ctx::default() };
        if let Err(e) = w.check(c.plan_seed(), o, &mut c2) {
            fail!("{who}: after the round trip: {}", e.msg);
        }
        ctx.queries += c1.queries + c2.queries;
        ctx.excluded_known += c1.excluded_known;
        ensure!(c1.transcript == c2.transcript, "{who}: the deserialized value answers the query plan differently from the original");
        ctx.transcript = c1.transcript;
        Ok(())
    }
}
