//! C04: the safe API is total and memory-safe for every argument and every state.
//!
//! A case is a value (any public type, obtained in one of several ways) plus a list of raw calls
//! whose arguments come from a boundary-biased domain. The model decides *before* each call
//! whether a documented panic is permitted; anything else that panics, and any `Some` for an
//! argument that denotes no position / symbol / occurrence, is a violation. Crashes (signals,
//! aborts) are caught by the driver.
use crate::anycase::{any_case, AnyCase, AnyVal};
use crate::bits::{BitsKind, BitsVal};
use crate::model::{BitModel, QuadModel, SeqModel};
use crate::quads::QuadVal;
use crate::runner::{CheckResult, Ctx, Failure, Prop, Tier};
use crate::seqcheck::{expect_rank, Exp};
use crate::trees::{DynSeq, TreeKind};
use crate::util::{catch, note};
use crate::{ensure, fail};
use proptest::prelude::*;
use qwt::{BitVector, BitVectorMut};
use serde::{Deserialize, Serialize};
use serde_json::{json, Value};

/// A raw `usize` argument.
#[derive(Clone, Copy, Debug, PartialEq, Eq, Hash, Serialize, Deserialize)]
pub enum Arg {
    Small(u8),
    /// 2^k + d
    Pow(u8, i8),
    /// n + d
    N(i8),
    /// (number of occurrences relevant to the call) + d
    Count(i8),
    /// usize::MAX - back
    Max(u8),
    /// frac * n >> 16
    Frac(u16),
    Raw(u64),
}

/// A raw symbol argument.
#[derive(Clone, Copy, Debug, PartialEq, Eq, Hash, Serialize, Deserialize)]
pub enum Sym {
    /// the frac-th distinct symbol of the sequence
    Present(u16),
    Abs(u8),
    /// max + d
    MaxPlus(u8),
    /// T::MAX - back
    TyMax(u8),
    Raw(u128),
}

#[derive(Clone, Copy, Debug, PartialEq, Eq, Hash, Serialize, Deserialize)]
pub struct Call {
    pub m: u8,
    pub a: Arg,
    pub b: Arg,
    pub s: Sym,
    pub bits: u64,
}

#[derive(Clone, Copy, Debug, PartialEq, Eq, Hash, Serialize, Deserialize)]
pub enum Way {
    Direct,
    Clone,
    Serde,
    CloneOfSerde,
    /// BitVector <-> BitVectorMut round trip (bit vectors), otherwise like Direct
    Convert,
    /// `donor.clone_from(&x)` where the donor is a second value of the same type built from the
    /// reversed, doubled content
    CloneFrom,
}

#[derive(Clone, Debug, PartialEq, Eq, Hash, Serialize, Deserialize)]
pub struct ApiCase {
    pub base: AnyCase,
    pub way: Way,
    pub calls: Vec<Call>,
    /// enumerate every method x every boundary argument instead of `calls`
    pub sweep: bool,
}

pub struct C04;

pub const BOUNDARY: [Arg; 40] = [
    Arg::Small(0), Arg::Small(1), Arg::Small(2), Arg::Small(3), Arg::Small(4), Arg::Small(5),
    Arg::Pow(6, -1), Arg::Pow(6, 0), Arg::Pow(6, 1), Arg::Pow(7, -1), Arg::Pow(7, 0), Arg::Pow(7, 1),
    Arg::Pow(8, -1), Arg::Pow(8, 0), Arg::Pow(8, 1), Arg::Pow(9, -1), Arg::Pow(9, 0), Arg::Pow(9, 1),
    Arg::Pow(11, -1), Arg::Pow(11, 0), Arg::Pow(11, 1), Arg::Pow(12, -1), Arg::Pow(12, 0), Arg::Pow(12, 1),
    Arg::Pow(13, -1), Arg::Pow(13, 0), Arg::Pow(13, 1),
    Arg::N(-1), Arg::N(0), Arg::N(1), Arg::Count(-1), Arg::Count(0), Arg::Count(1),
    Arg::Pow(32, 0), Arg::Pow(43, 0), Arg::Pow(63, 0), Arg::Max(1), Arg::Max(0), Arg::Max(63), Arg::Max(64),
];

fn resolve(a: Arg, n: usize, count: usize) -> usize {
    match a {
        Arg::Small(x) => x as usize,
        Arg::Pow(k, d) => ((1u128 << k.min(63)) as i128 + d as i128).clamp(0, usize::MAX as i128) as usize,
        Arg::N(d) => (n as i128 + d as i128).max(0) as usize,
        Arg::Count(d) => (count as i128 + d as i128).max(0) as usize,
        Arg::Max(b) => usize::MAX - b as usize,
        Arg::Frac(f) => (f as usize * n) >> 16,
        Arg::Raw(x) => x as usize,
    }
}

fn resolve_sym(s: Sym, m: &SeqModel, tmax: u128) -> u128 {
    let v = match s {
        Sym::Present(f) => {
            let d = m.distinct();
            if d == 0 { 0 } else { *m.pos.keys().nth((f as usize * d) >> 16).unwrap() }
        }
        Sym::Abs(x) => x as u128,
        Sym::MaxPlus(d) => m.max().unwrap_or(0).saturating_add(d as u128),
        Sym::TyMax(b) => tmax - (b as u128).min(tmax),
        Sym::Raw(x) => x,
    };
    v.min(tmax)
}

fn arg() -> BoxedStrategy<Arg> {
    prop_oneof![
        3 => (0u8..=5).prop_map(Arg::Small),
        4 => (prop_oneof![Just(6u8), Just(7), Just(8), Just(9), Just(11), Just(12), Just(13), Just(32), Just(43), Just(63), 0u8..64], -1i8..=1).prop_map(|(k, d)| Arg::Pow(k, d)),
        4 => (-2i8..=2).prop_map(Arg::N),
        5 => prop_oneof![3 => Just(-1i8), 2 => Just(0i8), 1 => Just(1i8), 1 => -2i8..=2].prop_map(Arg::Count),
        3 => prop_oneof![Just(0u8), Just(1), Just(63), Just(64), any::<u8>()].prop_map(Arg::Max),
        4 => any::<u16>().prop_map(Arg::Frac),
        1 => any::<u64>().prop_map(Arg::Raw),
    ]
    .boxed()
}

fn sym() -> BoxedStrategy<Sym> {
    prop_oneof![
        4 => any::<u16>().prop_map(Sym::Present),
        3 => any::<u8>().prop_map(Sym::Abs),
        3 => (0u8..=3).prop_map(Sym::MaxPlus),
        2 => (0u8..=2).prop_map(Sym::TyMax),
        1 => any::<u128>().prop_map(Sym::Raw),
    ]
    .boxed()
}

// ---------------------------------------------------------------------------------------------
// per-family call interpreters. Each returns Ok(()) when the outcome is what the model allows.

const SEQ_METHODS: u8 = 12;

fn call_seq(t: &dyn DynSeq, m: &SeqModel, c: &Call, ctx: &mut Ctx) -> CheckResult {
    let kind = t.kind();
    let tmax = t.ty().max();
    let n = m.n();
    let s = resolve_sym(c.s, m, tmax);
    let cnt = m.count(s);
    let a = resolve(c.a, n, cnt);
    let who = crate::seqcheck::describe(t);
    ctx.q();
    match c.m % SEQ_METHODS {
        0 => {
            note("get", a as u128, 0, 0);
            let g = t.get(a);
            let e = m.s.get(a).copied();
            ensure!(g == e, "{who}: get({a}) = {:?}, expected {:?} (n = {n})", g, e);
        }
        1 | 2 => {
            let e = expect_rank(kind, m, s, a);
            note("rank", s, a as u128, 0);
            let g = t.rank(s, a);
            ensure!(e.admits(g), "{who}: rank({s}, {a}) = {:?}, expected {:?} (n = {n})", g, e);
        }
        3 | 4 => {
            let e = expect_rank(kind, m, s, a);
            note("rank_prefetch", s, a as u128, 0);
            if let Some(g) = t.rank_prefetch(s, a) {
                ensure!(e.admits(g), "{who}: rank_prefetch({s}, {a}) = {:?}, expected {:?} (n = {n})", g, e);
            }
        }
        5 | 6 => {
            let e = m.select(s, a);
            note("select", s, a as u128, 0);
            let g = t.select(s, a);
            ensure!(g == e, "{who}: select({s}, {a}) = {:?}, expected {:?} (n = {n}, occurrences = {cnt})", g, e);
        }
        7 => {
            note("len/is_empty/n_levels/sigma", 0, 0, 0);
            ensure!(t.len() == n, "{who}: len = {}", t.len());
            ensure!(t.is_empty() == (n == 0), "{who}: is_empty");
            let _ = t.n_levels();
            if let Some(sg) = t.sigma() {
                ensure!(sg == m.max(), "{who}: sigma = {:?}", sg);
            }
        }
        8 => {
            // iterator, partially consumed from both ends
            note("iter", a as u128, 0, 0);
            let mut it = if c.bits & 1 == 0 { t.iter_box() } else { t.ref_into_iter_box() };
            let steps = (a % 40).min(n + 3);
            for i in 0..steps {
                let g = it.next();
                ensure!(g == m.s.get(i).copied(), "{who}: iter item {i} = {:?}", g);
            }
            let _ = it.len();
            let _ = it.next_back();
            let _ = it.len();
            // provided methods with a raw argument on the partially consumed iterator
            let b = resolve(c.b, n, cnt);
            note("iter.nth", b as u128, steps as u128, 0);
            let left = n.saturating_sub(steps.min(n)).saturating_sub(if n > steps { 1 } else { 0 });
            let g = it.nth(b);
            ensure!(g.is_some() == (b < left), "{who}: nth({b}) on an iterator with {left} items left returned {:?}", g);
            let _ = it.nth_back(b);
            let l = it.len();
            ensure!(l <= n, "{who}: len() = {l} after nth / nth_back");
        }
        9 => {
            note("space_usage", 0, 0, 0);
            let b = t.space_usage_byte();
            let (k, mi, g) = t.space_scaled();
            ensure!(k.is_finite() && mi.is_finite() && g.is_finite() && (b > 0 || n == 0), "{who}: space usage not finite");
        }
        10 => {
            note("debug_fmt", 0, 0, 0);
            if n <= 2000 {
                let d = t.debug_string();
                ensure!(!d.is_empty(), "{who}: empty Debug output");
            }
        }
        _ => {
            note("eq/clone", 0, 0, 0);
            if n <= 20_000 {
                let cl = t.clone_box();
                ensure!(cl.eq_dyn(t), "{who}: clone != original");
            }
        }
    }
    Ok(())
}

const BITS_METHODS: u8 = 16;

fn call_bits(v: &BitsVal, m: &BitModel, c: &Call, ctx: &mut Ctx) -> CheckResult {
    let kind = v.kind();
    let who = kind.name();
    let n = m.n();
    let cnt = if c.bits & 1 == 0 { m.ones.len() } else { m.zeros.len() };
    let a = resolve(c.a, n, cnt);
    let b = resolve(c.b, n, cnt);
    ctx.q();
    match c.m % BITS_METHODS {
        0 => {
            note("get", a as u128, 0, 0);
            let g = v.get(a);
            ensure!(g == m.b.get(a).copied(), "{who}: get({a}) = {:?} (n = {n})", g);
        }
        1 | 2 => {
            note("rank1/rank0", a as u128, 0, 0);
            if let (Some(r1), Some(r0)) = (v.rank1(a), v.rank0(a)) {
                if a > n {
                    ensure!(r1.is_none() && r0.is_none(), "{who}: rank1({a}) = {:?}, rank0 = {:?}, expected None (n = {n})", r1, r0);
                } else if n == 0 {
                    ensure!(r1.unwrap_or(0) == 0 && r0.unwrap_or(0) == 0, "{who}: rank on empty = {:?} / {:?}", r1, r0);
                } else {
                    ensure!(r1 == Some(m.rank1(a)) && r0 == Some(m.rank0(a)), "{who}: rank1({a}) = {:?}, rank0({a}) = {:?}, expected {} / {}", r1, r0, m.rank1(a), m.rank0(a));
                }
            }
        }
        3 | 4 => {
            note("select1", a as u128, 0, 0);
            if let Some(g) = v.select1(a) {
                ensure!(g == m.ones.get(a).copied(), "{who}: select1({a}) = {:?}, expected {:?} (ones = {})", g, m.ones.get(a), m.ones.len());
            }
        }
        5 | 6 => {
            note("select0", a as u128, 0, 0);
            if kind == BitsKind::Da0 {
                // documented: select0 on a DArray built without select0 support panics
                if let BitsVal::Da0(x) = v {
                    use qwt::SelectBin;
                    let r = catch(|| x.select0(a));
                    if let Ok(g) = r {
                        ensure!(g == m.zeros.get(a).copied(), "DArray<false>: select0({a}) returned {:?} instead of panicking or the right answer", g);
                    }
                }
            } else if let Some(g) = v.select0(a) {
                ensure!(g == m.zeros.get(a).copied(), "{who}: select0({a}) = {:?}, expected {:?} (zeros = {})", g, m.zeros.get(a), m.zeros.len());
            }
        }
        7 => {
            note("totals", 0, 0, 0);
            ensure!(v.n_ones() == m.ones.len() && v.n_zeros() == m.zeros.len(), "{who}: totals {} / {}", v.n_ones(), v.n_zeros());
            if let Some(l) = v.len() { ensure!(l == n, "{who}: len = {l}"); }
            if let Some(e) = v.is_empty() { ensure!(e == (n == 0), "{who}: is_empty"); }
            let _ = v.trait_n_zeros();
        }
        8 | 9 => {
            let l = match c.b { Arg::Small(x) => x as usize, Arg::Pow(k, d) => ((1i64 << k.min(7)) + d as i64).max(0) as usize, Arg::Frac(f) => f as usize % 67, _ => b };
            note("get_bits", a as u128, l as u128, 0);
            if let Some(g) = v.get_bits(a, l) {
                let e = m.get_bits(a, l);
                // KF-1: BitVectorMut returns None when a + l == n
                if kind == BitsKind::Bvm && !ctx.strict && e.is_some() && a + l == n {
                    ctx.excluded_known += 1;
                    ensure!(g.is_none() || g == e, "{who}: get_bits({a}, {l}) = {:?}", g);
                } else {
                    ensure!(g == e, "{who}: get_bits({a}, {l}) = {:?}, expected {:?} (n = {n})", g, e);
                }
            }
        }
        10 => {
            note("get_word", a as u128, 0, 0);
            if matches!(kind, BitsKind::Bv | BitsKind::Bvm) {
                match m.word(a) {
                    Some(e) => {
                        let g = v.get_word(a).unwrap();
                        ensure!(g == e, "{who}: get_word({a}) = {g:#x}, expected {e:#x}");
                    }
                    None => {
                        // out-of-range word index: documented panic permitted; a value must be 0 padding
                        let r = catch(|| v.get_word(a));
                        if let Ok(Some(g)) = r {
                            ensure!(g == 0, "{who}: get_word({a}) beyond the last bit returned {g:#x}");
                        }
                    }
                }
            }
        }
        11 | 12 => {
            note("ones_with_pos/zeros_with_pos", a as u128, 0, 0);
            if let Some(it) = v.ones_with_pos(a) {
                let got: Vec<usize> = it.take(5).collect();
                let from = m.ones.partition_point(|&x| x < a);
                let exp: Vec<usize> = m.ones[from..].iter().copied().take(5).collect();
                ensure!(got == exp, "{who}: ones_with_pos({a}) = {:?}.., expected {:?}..", got, exp);
            }
            if let Some(it) = v.zeros_with_pos(a) {
                let got: Vec<usize> = it.take(5).collect();
                let from = m.zeros.partition_point(|&x| x < a);
                let exp: Vec<usize> = m.zeros[from..].iter().copied().take(5).collect();
                ensure!(got == exp, "{who}: zeros_with_pos({a}) = {:?}.., expected {:?}..", got, exp);
            }
        }
        13 => {
            note("prefetch", a as u128, 0, 0);
            v.prefetch(a);
        }
        14 => {
            note("iter/ones/zeros", 0, 0, 0);
            if let Some(mut it) = v.iter() {
                let _ = it.len();
                let g = it.next();
                ensure!(g == m.b.first().copied(), "{who}: iter first = {:?}", g);
            }
            if let Some(mut it) = v.ones() {
                ensure!(it.next() == m.ones.first().copied(), "{who}: ones() first");
            }
            if let Some(mut it) = v.zeros() {
                ensure!(it.next() == m.zeros.first().copied(), "{who}: zeros() first");
            }
        }
        _ => {
            note("space/clone/eq/debug", 0, 0, 0);
            let _ = v.space_usage_byte();
            let _ = v.space_scaled();
            if n <= 20_000 {
                let cl = v.clone();
                ensure!(&cl == v, "{who}: clone != original");
            }
            if n <= 2000 {
                let d = format!("{:?}", v);
                ensure!(!d.is_empty(), "{who}: empty Debug");
            }
        }
    }
    Ok(())
}

const QUAD_METHODS: u8 = 10;

fn call_quad(v: &QuadVal, m: &QuadModel, c: &Call, ctx: &mut Ctx) -> CheckResult {
    let who = v.kind().name();
    let n = m.n();
    // quad symbols: all of 0..=255
    let s: u8 = match c.s { Sym::Abs(x) => x, Sym::Present(f) => (f % 4) as u8, Sym::MaxPlus(d) => 3 + d, Sym::TyMax(b) => 255 - b, Sym::Raw(x) => x as u8 };
    let cnt = if s <= 3 { m.occs(s) } else { 0 };
    let a = resolve(c.a, n, cnt);
    ctx.q();
    match c.m % QUAD_METHODS {
        0 => {
            note("get", a as u128, 0, 0);
            let g = v.get(a);
            ensure!(g == m.q.get(a).copied(), "{who}: get({a}) = {:?} (n = {n})", g);
        }
        1 | 2 => {
            note("rank", s as u128, a as u128, 0);
            if let Some(g) = v.rank(s, a) {
                let e = if s <= 3 && a <= n { Some(m.rank(s, a)) } else { None };
                ensure!(g == e, "{who}: rank({s}, {a}) = {:?}, expected {:?} (n = {n})", g, e);
            }
        }
        3 | 4 => {
            note("select", s as u128, a as u128, 0);
            if let Some(g) = v.select(s, a) {
                let e = if s <= 3 { m.pos[s as usize].get(a).copied() } else { None };
                ensure!(g == e, "{who}: select({s}, {a}) = {:?}, expected {:?} (occs = {cnt})", g, e);
            }
        }
        5 => {
            note("occs", s as u128, 0, 0);
            if let (Some(o1), Some(o2)) = (v.occs(s), v.occs_smaller(s)) {
                if s <= 3 {
                    ensure!(o1 == Some(m.occs(s)) && o2 == Some(m.occs_smaller(s)), "{who}: occs({s}) = {:?}, occs_smaller = {:?}", o1, o2);
                } else {
                    ensure!(o1.is_none() && o2.is_none(), "{who}: occs({s}) = {:?}, occs_smaller({s}) = {:?}, expected None", o1, o2);
                }
            }
        }
        6 => {
            note("prefetch", a as u128, 0, 0);
            v.prefetch(a);
        }
        7 => {
            ensure!(v.len() == n && v.is_empty() == (n == 0), "{who}: len = {}, is_empty = {}", v.len(), v.is_empty());
        }
        8 => {
            note("iter", 0, 0, 0);
            let mut it = v.iter();
            for i in 0..(a % 20).min(n + 2) {
                ensure!(it.next() == m.q.get(i).copied(), "{who}: iter item {i}");
            }
        }
        _ => {
            let _ = v.space_usage_byte();
            if n <= 20_000 {
                let cl = v.clone();
                ensure!(&cl == v, "{who}: clone != original");
            }
            if n <= 2000 {
                let d = format!("{:?}", v);
                ensure!(!d.is_empty(), "{who}: empty Debug");
            }
        }
    }
    Ok(())
}

/// mutating calls on a BitVectorMut with arbitrary (also invalid) arguments; the model decides
/// whether the documented panic is permitted
fn mutate_bvm(bv: &mut BitVectorMut, m: &mut Vec<bool>, c: &Call, ctx: &mut Ctx) -> CheckResult {
    let n = m.len();
    let a = resolve(c.a, n, 0);
    let l = match c.b { Arg::Small(x) => x as usize, Arg::Pow(k, d) => ((1i64 << k.min(7)) + d as i64).max(0) as usize, Arg::Frac(f) => f as usize % 70, Arg::N(d) => (64 + d as i64) as usize, other => resolve(other, n, 0) };
    ctx.q();
    match c.m % 6 {
        0 => {
            let bit = c.bits & 1 == 1;
            note("set", a as u128, bit as u128, 0);
            let r = catch(|| bv.set(a, bit));
            if a < n {
                if let Err(p) = r { fail!("BitVectorMut: set({a}, {bit}) panicked on a valid index (n = {n}): {p}"); }
                m[a] = bit;
            } else {
                // documented panic (mutating out of bounds) permitted; if it returns instead, the
                // state comparison below must still hold
                if r.is_ok() { ctx.label("set-out-of-bounds-returned"); }
            }
        }
        1 | 2 => {
            let bits = c.bits;
            note("set_bits", a as u128, l as u128, bits as u128);
            let valid = l <= 64 && a.checked_add(l).map_or(false, |e| e <= n) && (l == 64 || bits >> l == 0);
            let r = catch(|| bv.set_bits(a, l, bits));
            if valid {
                if let Err(p) = r { fail!("BitVectorMut: set_bits({a}, {l}, {bits:#x}) panicked inside its documented precondition (n = {n}): {p}"); }
                for j in 0..l { m[a + j] = (bits >> j) & 1 == 1; }
            } else if r.is_ok() {
                // outside the precondition a panic is documented; returning is only acceptable
                // when nothing observable changed
                ctx.label("set_bits-invalid-returned");
            }
        }
        3 => {
            let bits = c.bits;
            note("append_bits", bits as u128, l as u128, 0);
            let valid = l <= 64 && (l == 64 || bits >> l == 0);
            let r = catch(|| bv.append_bits(bits, l));
            if valid {
                if let Err(p) = r { fail!("BitVectorMut: append_bits({bits:#x}, {l}) panicked inside its documented precondition: {p}"); }
                for j in 0..l { m.push((bits >> j) & 1 == 1); }
            } else {
                ensure!(r.is_err() || bv.len() == n, "BitVectorMut: append_bits({bits:#x}, {l}) outside its precondition changed the vector without panicking");
            }
        }
        4 => {
            let z = (c.bits % 3000) as usize;
            note("extend_with_zeros", z as u128, 0, 0);
            bv.extend_with_zeros(z);
            m.resize(n + z, false);
        }
        _ => {
            let bit = c.bits & 1 == 1;
            note("push", bit as u128, 0, 0);
            bv.push(bit);
            m.push(bit);
        }
    }
    // after every mutation (also after a permitted panic) the value must still be the model
    let ones = m.iter().filter(|&&b| b).count();
    ensure!(bv.len() == m.len(), "BitVectorMut: len = {} after the call, expected {}", bv.len(), m.len());
    ensure!(bv.count_ones() == ones, "BitVectorMut: count_ones = {} after the call, expected {ones}", bv.count_ones());
    Ok(())
}

/// constructors whose documented panics must be the only panics
fn constructor_probes(seed: u64, ctx: &mut Ctx) -> CheckResult {
    use qwt::DArray;
    let mut r = crate::util::Rng::new(seed);
    // position lists: strictly increasing required by DArray, any order for bit vectors
    let mut pos: Vec<i64> = (0..(r.below(20) as usize)).map(|_| r.below(3000) as i64).collect();
    let increasing = pos.windows(2).all(|w| w[0] < w[1]);
    note("DArray::from_iter(positions)", pos.len() as u128, 0, 0);
    let p2 = pos.clone();
    let res = catch(move || p2.into_iter().collect::<DArray<true>>());
    ctx.q();
    if increasing {
        if let Err(p) = res { fail!("DArray::from_iter on a strictly increasing list {:?} panicked: {p}", pos); }
    } else {
        ensure!(res.is_err(), "DArray::from_iter accepted the non-increasing list {:?}", pos);
    }
    // a negative position is not convertible
    if r.below(2) == 0 && !pos.is_empty() {
        let k = r.below_usize(pos.len());
        pos[k] = -1 - r.below(5) as i64;
        note("BitVector::from_iter(negative)", 0, 0, 0);
        let p3 = pos.clone();
        let res = catch(move || p3.into_iter().collect::<BitVector>());
        ensure!(res.is_err(), "BitVector::from_iter accepted a negative position in {:?}", pos);
    }
    // size arguments (bounded: beyond that allocation failure is the documented outcome)
    let cap = r.below(1 << 22) as usize;
    note("with_capacity", cap as u128, 0, 0);
    let b = BitVectorMut::with_capacity(cap);
    ensure!(b.len() == 0 && b.is_empty(), "BitVectorMut::with_capacity({cap}) is not empty");
    let z = r.below(1 << 20) as usize;
    note("with_zeros", z as u128, 0, 0);
    let b = BitVectorMut::with_zeros(z);
    ensure!(b.len() == z && b.count_ones() == 0, "BitVectorMut::with_zeros({z}): len {}, ones {}", b.len(), b.count_ones());
    let qb = qwt::QVectorBuilder::with_capacity(cap);
    let q = qb.build();
    ensure!(q.is_empty() && q.len() == 0, "QVectorBuilder::with_capacity({cap}).build() is not empty");
    ctx.q();
    Ok(())
}

fn obtain(v: AnyVal, way: Way) -> Result<AnyVal, Failure> {
    let serde = |v: &AnyVal| -> Result<AnyVal, Failure> {
        let b = v.ser().map_err(|e| Failure::new(format!("serialize failed: {e}")))?;
        v.de_same(&b).map_err(|e| Failure::new(format!("deserialize failed: {e}")))
    };
    Ok(match way {
        Way::Direct => v,
        Way::Clone => v.clone_val(),
        Way::Serde => serde(&v)?,
        Way::CloneOfSerde => serde(&v)?.clone_val(),
        Way::CloneFrom => v,
        Way::Convert => match v {
            AnyVal::Bits(BitsVal::Bv(x), m) => {
                let mm: BitVectorMut = x.into();
                AnyVal::Bits(BitsVal::Bv(mm.into()), m)
            }
            AnyVal::Bits(BitsVal::Bvm(x), m) => {
                let im: BitVector = x.into();
                AnyVal::Bits(BitsVal::Bvm(im.into()), m)
            }
            other => other,
        },
    })
}

/// a second value of the same concrete type holding other content (reversed and doubled)
fn donor_of(base: &AnyCase) -> Option<AnyVal> {
    use crate::bitgen::BitContent;
    use crate::quads::QuadContent;
    use crate::seqgen::Content;
    let twice = |n: usize| n <= 200_000;
    Some(match base {
        AnyCase::Seq(c) => {
            let mut s = c.content.expand();
            if !twice(s.len()) { return None; }
            s.reverse();
            let t = s.clone();
            s.extend(t);
            s.push(0);
            AnyCase::Seq(crate::seqgen::SeqCase { content: Content::Explicit(s), how: crate::trees::How::New, ..c.clone() }).build()
        }
        AnyCase::Bits(c) => {
            let mut b = c.content.expand();
            if !twice(b.len()) { return None; }
            b.reverse();
            let t = b.clone();
            b.extend(t);
            b.push(true);
            AnyCase::Bits(crate::props::bitsprops::BitsCase { content: BitContent::Explicit(b), bvhow: crate::bits::BvHow::Bools, wrap: crate::bits::WrapHow::New, ..c.clone() }).build()
        }
        AnyCase::Quad(c) => {
            let mut q = c.content.expand();
            if !twice(q.len()) { return None; }
            q.reverse();
            let t = q.clone();
            q.extend(t);
            q.push(3);
            AnyCase::Quad(crate::props::quadprops::QuadCase { content: QuadContent::Explicit(q), how: crate::quads::QuadHow::FromQVector(crate::quads::IntTy::U8), ..c.clone() }).build()
        }
    })
}

fn sweep_calls(methods: u8) -> Vec<Call> {
    let syms = [Sym::Abs(0), Sym::Abs(1), Sym::Abs(3), Sym::Abs(4), Sym::Abs(255), Sym::MaxPlus(0), Sym::MaxPlus(1), Sym::MaxPlus(2), Sym::TyMax(0), Sym::Present(0), Sym::Present(65535)];
    let mut v = Vec::new();
    for m in 0..methods {
        for (i, &a) in BOUNDARY.iter().enumerate() {
            for (j, &s) in syms.iter().enumerate() {
                // second argument / symbol only matter for some methods; keep the product bounded
                if j > 0 && i % 4 != j % 4 && !matches!(a, Arg::Small(0) | Arg::N(0) | Arg::N(1) | Arg::Max(0)) {
                    continue;
                }
                v.push(Call { m, a, b: BOUNDARY[(i * 7 + j) % BOUNDARY.len()], s, bits: (i + j) as u64 });
            }
        }
    }
    v
}

impl Prop for C04 {
    type Case = ApiCase;
    fn id(&self) -> &'static str { "C04" }
    fn strategy(&self, tier: Tier, _b: &str) -> BoxedStrategy<ApiCase> {
        let call = (any::<u8>(), arg(), arg(), sym(), prop_oneof![any::<u64>(), 0u64..256, Just(u64::MAX)])
            .prop_map(|(m, a, b, s, bits)| Call { m, a, b, s, bits });
        let way = prop_oneof![3 => Just(Way::Direct), 2 => Just(Way::Clone), 2 => Just(Way::Serde), 1 => Just(Way::CloneOfSerde), 1 => Just(Way::Convert), 2 => Just(Way::CloneFrom)];
        (any_case(tier, (5, 4, 2), &TreeKind::ALL), way, proptest::collection::vec(call, 1..80))
            .prop_map(|(base, way, calls)| ApiCase { base, way, calls, sweep: false })
            .boxed()
    }
    fn fixed_cases(&self, _tier: Tier) -> Vec<ApiCase> {
        // every method x every boundary argument on empty, default and one-element values of every type
        use crate::bitgen::BitContent;
        use crate::bits::{BvHow, WrapHow};
        use crate::elem::ElemTy;
        use crate::props::bitsprops::BitsCase;
        use crate::props::quadprops::QuadCase;
        use crate::quads::{IntTy, QuadContent, QuadHow, QuadKind};
        use crate::seqgen::{Content, SeqCase};
        use crate::trees::How;
        let mut v = Vec::new();
        let ways = [Way::Direct, Way::Serde];
        for kind in TreeKind::ALL {
            for ty in ElemTy::ALL {
                for (how, content) in [(How::New, vec![]), (How::Default, vec![]), (How::FromVec, vec![0u128]), (How::Collect, vec![if kind.is_huffman() { ty.max().min(300) } else { ty.max() }]), (How::New, vec![3, 3])] {
                    for way in ways {
                        v.push(ApiCase { base: AnyCase::Seq(SeqCase { kind, ty, how, content: Content::Explicit(content.clone()), tie_seed: 1, plan_seed: 1 }), way, calls: vec![], sweep: true });
                    }
                }
            }
        }
        for kind in BitsKind::ALL {
            for (bvhow, wrap, bits) in [(BvHow::Bools, WrapHow::New, vec![]), (BvHow::Default, WrapHow::Default, vec![]), (BvHow::Default, WrapHow::New, vec![]), (BvHow::Bools, WrapHow::From, vec![true]), (BvHow::Pushes, WrapHow::New, vec![false]), (BvHow::PosUsize, WrapHow::Collect, vec![false, true])] {
                for way in [Way::Direct, Way::Serde, Way::Convert] {
                    v.push(ApiCase { base: AnyCase::Bits(BitsCase { kind, bvhow, wrap, content: BitContent::Explicit(bits.clone()), plan_seed: 1 }), way, calls: vec![], sweep: true });
                }
            }
        }
        for kind in [QuadKind::Qv, QuadKind::Rs256, QuadKind::Rs512] {
            for (how, q) in [(QuadHow::FromQVector(IntTy::U8), vec![]), (QuadHow::Default, vec![]), (QuadHow::NewSlice(IntTy::U64), vec![]), (QuadHow::Collect(IntTy::I8), vec![2u8]), (QuadHow::FromQVector(IntTy::U8), vec![0])] {
                for way in ways {
                    v.push(ApiCase { base: AnyCase::Quad(QuadCase { kind, how, content: QuadContent::Explicit(q.clone()), salt: 0, plan_seed: 1 }), way, calls: vec![], sweep: true });
                }
            }
        }
        v
    }
    fn fixed_in_asan(&self) -> bool { true }
    fn builds(&self, _tier: Tier) -> Vec<&'static str> {
        // `asan`: the fast build instrumented with AddressSanitizer (out-of-bounds reads that happen
        // to return the right answer are invisible otherwise)
        vec!["fast", "checked", "asan"]
    }
    fn cases(&self, tier: Tier, build: &str) -> u32 {
        match (tier, build) {
            (Tier::Quick, "asan") => 9_600,
            (Tier::Thorough, "asan") => 60_000,
            (Tier::Quick, "fast") => 48_000,
            (Tier::Quick, _) => 24_000,
            (Tier::Thorough, "fast") => 300_000,
            (Tier::Thorough, _) => 100_000,
        }
    }
    fn rule(&self) -> &'static str {
        "enumerated: every method x 40 boundary arguments x 11 symbol arguments on empty, default-constructed and one-element values of all 60 tree instantiations, 6 bit structures and 3 quad structures, direct and after a bincode round trip; generated: (any structure from the shared generators; obtained directly / by clone / by serialize+deserialize / clone of that / BitVector<->BitVectorMut conversion; 1..80 calls with method id and raw arguments drawn from {0..5, 2^k+-1, n+-2, count+-2, usize::MAX-k, fractions of n, raw u64}, symbols {present, 0..=255, max+0..3, T::MAX-k, raw}); BitVectorMut additionally receives mutating calls with arbitrary arguments, and constructor probes (non-increasing / negative position lists, size arguments <= 2^22) run once per case. The model decides before each call whether a documented panic is permitted. non-trivial = a call with an argument outside the valid range, or on an empty/default/deserialized value; distinct = hash of the case"
    }
    fn sample(&self, c: &ApiCase) -> Value {
        json!({"base": c.base.sample(), "way": format!("{:?}", c.way), "sweep": c.sweep, "n_calls": c.calls.len(), "calls_head": format!("{:?}", &c.calls[..c.calls.len().min(4)])})
    }
    fn simplify(&self, c: &ApiCase) -> Vec<ApiCase> {
        let mut v: Vec<ApiCase> = crate::runner::chunk_removals(&c.calls, 10).into_iter().filter(|x| !x.is_empty() || c.sweep).map(|calls| ApiCase { calls, ..c.clone() }).collect();
        v.extend(c.base.simplify().into_iter().map(|base| ApiCase { base, ..c.clone() }));
        if c.way != Way::Direct {
            v.push(ApiCase { way: Way::Direct, ..c.clone() });
        }
        v
    }
    fn run(&self, c: &ApiCase, ctx: &mut Ctx) -> CheckResult {
        let who = c.base.type_name();
        ctx.label(&who);
        ctx.label(&format!("way={:?}", c.way));
        note("construct", 0, 0, 0);
        let built = c.base.build();
        let n = built.n();
        note("obtain", 0, 0, 0);
        let v = match obtain(built, c.way) {
            Ok(v) => v,
            Err(e) => fail!("{who} via {:?}: {}", c.way, e.msg),
        };
        let v = if c.way == Way::CloneFrom {
            match donor_of(&c.base).and_then(|d| v.clone_from_into(&d)) {
                Some(cf) => {
                    ensure!(cf.eq_val(&v), "{who}: after donor.clone_from(&x) donor != x (n = {n})");
                    cf
                }
                None => v,
            }
        } else {
            v
        };
        if n == 0 { ctx.label("empty-or-default"); }
        let mut invalid = false;
        let methods = match &v { AnyVal::Seq(..) => SEQ_METHODS, AnyVal::Bits(..) => BITS_METHODS, AnyVal::Quad(..) => QUAD_METHODS };
        let calls: Vec<Call> = if c.sweep { sweep_calls(methods) } else { c.calls.clone() };
        for call in &calls {
            let a = resolve(call.a, n, 0);
            if a > n || matches!(call.s, Sym::MaxPlus(1..) | Sym::TyMax(_) | Sym::Raw(_)) { invalid = true; }
            let r = match &v {
                AnyVal::Seq(t, m) => catch(|| call_seq(t.as_ref(), m, call, ctx)),
                AnyVal::Bits(b, m) => catch(|| call_bits(b, m, call, ctx)),
                AnyVal::Quad(q, m) => catch(|| call_quad(q, m, call, ctx)),
            };
            match r {
                Ok(Ok(())) => {}
                Ok(Err(f)) => fail!("{} (value obtained via {:?})", f.msg, c.way),
                Err(p) => {
                    let nt = crate::util::current_note();
                    fail!("{who} (via {:?}, n = {n}): {}({}, {}, {}) panicked: {p}", c.way, nt.op, nt.a, nt.b, nt.c)
                }
            }
        }
        // mutating calls on BitVectorMut
        if let AnyVal::Bits(BitsVal::Bvm(bv), m) = &v {
            let mut bv = bv.clone();
            let mut model = m.b.clone();
            for call in calls.iter().take(40) {
                mutate_bvm(&mut bv, &mut model, call, ctx)?;
            }
            ctx.label("bvm-mutations");
        }
        if !c.sweep {
            constructor_probes(c.base.plan_seed(), ctx)?;
        }
        ctx.nontrivial = invalid || n == 0 || matches!(c.way, Way::Serde | Way::CloneOfSerde);
        Ok(())
    }
}
