//! C17: word-level primitives of qwt::utils against bit loops / stable sorts.
use crate::runner::{CheckResult, Ctx, Prop, Tier};
use crate::util::Rng;
use crate::{ensure, fail};
use proptest::prelude::*;
use qwt::utils::{msb, popcnt_wide, select_in_word, select_in_word_u128, stable_partition_of_2, stable_partition_of_4, text_remap};
use serde::{Deserialize, Serialize};
use serde_json::{json, Value};

#[derive(Clone, Copy, Debug, PartialEq, Eq, Hash, Serialize, Deserialize)]
pub enum UTy { U8, U16, U32, U64, Usize, U128 }

#[derive(Clone, Debug, PartialEq, Eq, Hash, Serialize, Deserialize)]
pub enum WordCase {
    /// enumerated: byte value b at every byte position, every in-byte rank, three kinds of context
    Table(u8),
    Sel64 { w: u64, k: u8 },
    Sel128 { w: u128, k: u8 },
    Pop { data: Vec<u64> },
    /// msb of the value reinterpreted in every primitive integer type
    Msb { v: u128 },
    Part4 { ty: UTy, shift: u8, data: Vec<u128> },
    Part2 { ty: UTy, shift: u8, data: Vec<u128> },
    Remap(Vec<u8>),
    /// stable_partition_of_4 (or _of_2) over `n` pseudo-random elements (long slices)
    PartBig { four: bool, ty: UTy, shift: u8, n: u32, seed: u64 },
}

pub struct C17;

fn sel_ref(w: u128, k: u64, width: u32) -> u32 {
    let mut c = 0;
    for i in 0..width {
        if (w >> i) & 1 == 1 {
            if c == k {
                return i;
            }
            c += 1;
        }
    }
    width
}

fn check_sel64(w: u64, ctx: &mut Ctx, ks: impl Iterator<Item = u64>) -> CheckResult {
    for k in ks {
        let e = sel_ref(w as u128, k, 64);
        crate::util::note("select_in_word", w as u128, k as u128, 0);
        let g = select_in_word(w, k);
        ctx.q();
        ensure!(g == e, "select_in_word({w:#018x}, {k}) = {g}, expected {e}");
    }
    Ok(())
}

fn word() -> BoxedStrategy<u64> {
    prop_oneof![
        3 => any::<u64>(),
        2 => (any::<u64>(), any::<u64>()).prop_map(|(a, b)| a & b),           // sparse-ish
        1 => (any::<u64>(), any::<u64>(), any::<u64>()).prop_map(|(a, b, c)| a & b & c),
        2 => (any::<u64>(), any::<u64>()).prop_map(|(a, b)| a | b),           // dense-ish
        2 => proptest::collection::vec(prop_oneof![Just(0u8), Just(0xFF), any::<u8>()], 8..=8)
            .prop_map(|b| u64::from_le_bytes(b.try_into().unwrap())),          // bytes 0x00/0xFF mixed
        1 => (0u32..64).prop_map(|i| 1u64 << i),
        1 => (0u32..64).prop_map(|i| !(1u64 << i)),
        1 => Just(0u64),
        1 => Just(u64::MAX),
    ]
    .boxed()
}

fn uty() -> BoxedStrategy<UTy> {
    proptest::sample::select(vec![UTy::U8, UTy::U16, UTy::U32, UTy::U64, UTy::Usize, UTy::U128]).boxed()
}
fn bits_of(t: UTy) -> u32 {
    match t { UTy::U8 => 8, UTy::U16 => 16, UTy::U32 => 32, UTy::U64 | UTy::Usize => 64, UTy::U128 => 128 }
}

macro_rules! partition_check {
    ($t:ty, $data:expr, $shift:expr, $four:expr, $ctx:expr) => {{
        let orig: Vec<$t> = $data.iter().map(|&x| x as $t).collect();
        let mut got = orig.clone();
        let shift = $shift as usize;
        if $four {
            crate::util::note("stable_partition_of_4", orig.len() as u128, shift as u128, 0);
            stable_partition_of_4(&mut got, shift);
        } else {
            crate::util::note("stable_partition_of_2", orig.len() as u128, shift as u128, 0);
            stable_partition_of_2(&mut got, shift);
        }
        let mask: u128 = if $four { 3 } else { 1 };
        let key = |x: &$t| ((*x as u128) >> shift) & mask;
        let mut exp = orig.clone();
        exp.sort_by_key(key); // std's sort_by_key is stable
        $ctx.q();
        let buckets = { let mut k: Vec<u128> = orig.iter().map(key).collect(); k.sort(); k.dedup(); k.len() };
        ensure!(got == exp, "stable_partition_of_{}::<{}>(shift = {shift}) on {} elements: result differs from a stable sort by the key bits (first difference at index {:?})",
            if $four { 4 } else { 2 }, stringify!($t), orig.len(), got.iter().zip(exp.iter()).position(|(a, b)| a != b));
        buckets
    }};
}

impl Prop for C17 {
    type Case = WordCase;
    fn id(&self) -> &'static str { "C17" }
    fn fixed_cases(&self, tier: Tier) -> Vec<WordCase> {
        let mut v: Vec<WordCase> = (0..=255u8).map(WordCase::Table).collect();
        // long slices around 2^17 and 2^20 elements (2^22 in the thorough tier)
        let mut sizes: Vec<u32> = vec![(1 << 17) - 1, 1 << 17, (1 << 17) + 1, (1 << 20) - 1, 1 << 20, (1 << 20) + 3];
        if tier == Tier::Thorough {
            sizes.extend([(1 << 22) + 1, 3_000_000]);
        }
        for (j, &n) in sizes.iter().enumerate() {
            let ty = [UTy::U8, UTy::U64, UTy::U16, UTy::U128, UTy::U32, UTy::Usize][j % 6];
            let shift = [0u8, 2, 4, 6, 3, 1][j % 6];
            v.push(WordCase::PartBig { four: true, ty, shift, n, seed: j as u64 });
            v.push(WordCase::PartBig { four: false, ty, shift, n, seed: 100 + j as u64 });
        }
        v
    }
    fn strategy(&self, _tier: Tier, _b: &str) -> BoxedStrategy<WordCase> {
        let data = |max: usize| {
            (uty(), any::<u8>(), 0u8..4, proptest::collection::vec(any::<u128>(), 0..max)).prop_map(|(ty, sh, mode, mut data)| {
                let w = bits_of(ty);
                let shift = (sh as u32 % w) as u8;
                // mode: full range; few distinct values; values differing only around the shift; sorted
                match mode {
                    1 => for x in data.iter_mut() { *x %= 7; *x <<= shift.min(120); },
                    2 => for x in data.iter_mut() { *x = (*x & 0xF) << (shift.saturating_sub(1)).min(120) | (*x >> 100); },
                    _ => {}
                }
                (ty, shift, data)
            })
        };
        prop_oneof![
            6 => (word(), 0u8..64).prop_map(|(w, k)| WordCase::Sel64 { w, k }),
            3 => (word(), word(), 0u8..128).prop_map(|(a, b, k)| WordCase::Sel128 { w: (a as u128) << 64 | b as u128, k }),
            1 => proptest::collection::vec(word(), 0..24).prop_map(|data| WordCase::Pop { data }),
            // long slices, also of one repeated word (saturated byte lanes: 0xFF in every word)
            1 => (word(), word(), 0usize..600, 0u8..4).prop_map(|(a, b, n, mode)| WordCase::Pop { data: (0..n).map(|i| match mode { 0 => a, 1 => u64::MAX, 2 => a | 0xFF00_0000_00FF, _ => if i % 2 == 0 { a } else { b } }).collect() }),
            1 => prop_oneof![any::<u128>(), (0u32..128).prop_map(|i| 1u128 << i), (0u32..128).prop_map(|i| (1u128 << i) - 1), (0u32..127).prop_map(|i| (1u128 << i) + 1), Just(0u128), Just(u128::MAX)].prop_map(|v| WordCase::Msb { v }),
            2 => data(300).prop_map(|(ty, shift, data)| WordCase::Part4 { ty, shift, data }),
            2 => data(300).prop_map(|(ty, shift, data)| WordCase::Part2 { ty, shift, data }),
            1 => data(2000).prop_map(|(ty, shift, data)| WordCase::Part4 { ty, shift, data }),
            1 => (any::<bool>(), uty(), any::<u8>(), prop_oneof![400 => 0u32..3000, 1 => 3000u32..300_000], any::<u64>()).prop_map(|(four, ty, sh, n, seed)| WordCase::PartBig { four, ty, shift: (sh as u32 % bits_of(ty)) as u8, n, seed }),
            1 => prop_oneof![proptest::collection::vec(any::<u8>(), 0..400), proptest::collection::vec(0u8..6, 0..50), proptest::collection::vec(prop_oneof![Just(0u8), Just(255u8), Just(7u8)], 0..20)].prop_map(WordCase::Remap),
        ]
        .boxed()
    }
    fn cases(&self, tier: Tier, build: &str) -> u32 {
        match (tier, build) {
            (Tier::Quick, "fast") => 900_000,
            (Tier::Quick, _) => 300_000,
            (Tier::Thorough, "fast") => 6_000_000,
            (Tier::Thorough, _) => 2_000_000,
        }
    }
    // `native`: the same code compiled with `-C target-cpu=native` (code paths selected by
    // `cfg(target_feature = ...)`)
    fn builds(&self, _tier: Tier) -> Vec<&'static str> { vec!["fast", "checked", "native"] }
    fn rule(&self) -> &'static str {
        "enumerated: every byte value x every byte position x every in-byte rank x {zero, all-ones, random} context for select_in_word (complete cover of the 2048-entry table); generated: words (random, sparse, dense, 0x00/0xFF bytes, single bit) x k for select_in_word and select_in_word_u128 (every k for each word), popcnt_wide<N> for N in 1..=8,16, msb over all 12 primitive types, stable_partition_of_4/2 over 6 element types and every shift below the width, text_remap; non-trivial = word with popcount >= 2 queried at 0 < k, or a partition input with >= 2 non-empty buckets and shift > 0, or a remap input with >= 2 distinct bytes; distinct = hash of the case"
    }
    fn sample(&self, c: &WordCase) -> Value {
        let s = format!("{:?}", c);
        json!(s[..s.len().min(200)].to_string())
    }
    fn run(&self, c: &WordCase, ctx: &mut Ctx) -> CheckResult {
        match c {
            WordCase::Table(b) => {
                ctx.label("table-sweep");
                ctx.nontrivial = b.count_ones() >= 2;
                let mut r = Rng::new(*b as u64 + 17);
                for p in 0..8u32 {
                    for context in 0..3 {
                        let others: u64 = match context { 0 => 0, 1 => u64::MAX, _ => r.next_u64() };
                        let w = (others & !(0xFFu64 << (8 * p))) | ((*b as u64) << (8 * p));
                        // every k: covers every in-byte rank of byte p and the not-found result
                        check_sel64(w, ctx, 0..64)?;
                    }
                }
            }
            WordCase::Sel64 { w, k } => {
                ctx.label("select_in_word");
                ctx.nontrivial = w.count_ones() >= 2 && *k > 0;
                check_sel64(*w, ctx, std::iter::once(*k as u64))?;
                check_sel64(*w, ctx, 0..64)?;
            }
            WordCase::Sel128 { w, k } => {
                ctx.label("select_in_word_u128");
                ctx.nontrivial = w.count_ones() >= 2 && *k > 0;
                for kk in std::iter::once(*k as u64).chain(0..128) {
                    let e = sel_ref(*w, kk, 128);
                    crate::util::note("select_in_word_u128", *w, kk as u128, 0);
                    let g = select_in_word_u128(*w, kk);
                    ctx.q();
                    ensure!(g == e, "select_in_word_u128({w:#034x}, {kk}) = {g}, expected {e}");
                }
            }
            WordCase::Pop { data } => {
                ctx.label("popcnt_wide");
                ctx.nontrivial = data.len() >= 2;
                macro_rules! pc { ($($n:literal),*) => {$(
                    let e: usize = data.iter().take($n).map(|w| w.count_ones() as usize).sum();
                    let g = popcnt_wide::<$n>(data);
                    ctx.q();
                    ensure!(g == e, "popcnt_wide::<{}> over {} words = {g}, expected {e}", $n, data.len());
                )*}; }
                pc!(1, 2, 3, 4, 5, 6, 7, 8, 16, 31, 32, 33, 64, 100, 255, 256, 257, 1000);
            }
            WordCase::Msb { v } => {
                ctx.label("msb");
                ctx.nontrivial = *v > 1;
                macro_rules! m { ($($t:ty),*) => {$(
                    let x = *v as $t;
                    // reference: index of the highest set bit of the two's complement pattern, 0 for 0
                    let bits = <$t>::BITS;
                    let pat = (x as u128) & (if bits == 128 { u128::MAX } else { (1u128 << bits) - 1 });
                    let e = if pat == 0 { 0 } else { 127 - pat.leading_zeros() };
                    let g = msb(x);
                    ctx.q();
                    ensure!(g == e, "msb::<{}>({}) = {g}, expected {e}", stringify!($t), x);
                )*}; }
                m!(u8, u16, u32, u64, usize, u128, i8, i16, i32, i64, isize, i128);
            }
            WordCase::Part4 { ty, shift, data } | WordCase::Part2 { ty, shift, data } => {
                let four = matches!(c, WordCase::Part4 { .. });
                ctx.label(if four { "stable_partition_of_4" } else { "stable_partition_of_2" });
                ctx.label(&format!("{:?}", ty));
                if *shift >= 64 { ctx.label("shift>=64"); }
                let buckets = match ty {
                    UTy::U8 => partition_check!(u8, data, *shift, four, ctx),
                    UTy::U16 => partition_check!(u16, data, *shift, four, ctx),
                    UTy::U32 => partition_check!(u32, data, *shift, four, ctx),
                    UTy::U64 => partition_check!(u64, data, *shift, four, ctx),
                    UTy::Usize => partition_check!(usize, data, *shift, four, ctx),
                    UTy::U128 => partition_check!(u128, data, *shift, four, ctx),
                };
                ctx.nontrivial = buckets >= 2 && *shift > 0;
            }
            WordCase::PartBig { four, ty, shift, n, seed } => {
                let mut r = Rng::new(*seed);
                // a few distinct values around the shift, so that all buckets are long
                let data: Vec<u128> = (0..*n).map(|_| { let x = r.next_u64() as u128; ((x & 0xF) << (*shift as u32).saturating_sub(1).min(120)) | (x >> 40 & 1) }).collect();
                if *n >= 100_000 { ctx.label("partition-long-slice"); }
                let inner = if *four { WordCase::Part4 { ty: *ty, shift: *shift, data } } else { WordCase::Part2 { ty: *ty, shift: *shift, data } };
                return self.run(&inner, ctx);
            }
            WordCase::Remap(input) => {
                ctx.label("text_remap");
                let distinct: std::collections::BTreeSet<u8> = input.iter().copied().collect();
                let order: Vec<u8> = distinct.iter().copied().collect();
                let exp: Vec<u8> = input.iter().map(|b| order.binary_search(b).unwrap() as u8).collect();
                let mut got = input.clone();
                crate::util::note("text_remap", input.len() as u128, 0, 0);
                let d = text_remap(&mut got);
                ctx.q();
                ctx.nontrivial = distinct.len() >= 2;
                ensure!(d == distinct.len(), "text_remap returned {d}, expected {} distinct byte values", distinct.len());
                ensure!(got == exp, "text_remap: remapped text differs from the order-preserving ranks");
            }
        }
        let _ = unreachable_fail;
        Ok(())
    }
}

#[allow(dead_code)]
fn unreachable_fail() -> CheckResult {
    fail!("unreachable")
}
