//! C19: all construction paths and copies build the same structure; different sequences differ.
use crate::anycase::{any_case, AnyCase, AnyOpts, AnyVal};
use crate::bitgen::BitContent;
use crate::bits::{BitsKind, BitsVal, BvHow, WrapHow};
use crate::elem::ElemTy;
use crate::model::{BitModel, QuadModel, SeqModel};
use crate::props::bitsprops::BitsCase;
use crate::props::quadprops::QuadCase;
use crate::quads::{IntTy, QuadContent, QuadHow, QuadKind, QuadVal};
use crate::runner::{CheckResult, Ctx, Prop, Tier};
use crate::seqgen::{Content, SeqCase};
use crate::trees::{build_tree, How, TreeKind};
use crate::{ensure, fail};
use proptest::prelude::*;
use serde::{Deserialize, Serialize};
use serde_json::{json, Value};

#[derive(Clone, Copy, Debug, PartialEq, Eq, Hash, Serialize, Deserialize)]
pub enum Neighbour {
    /// element at frac changed to another value
    Change(u16, u16),
    Append(u16),
    RemoveLast,
    /// swap the first pair of distinct adjacent elements at or after frac
    Swap(u16),
}

#[derive(Clone, Debug, PartialEq, Eq, Hash, Serialize, Deserialize)]
pub struct PathCase {
    pub base: AnyCase,
    pub neighbour: Neighbour,
}

pub struct C19;

/// applies the neighbour edit to a vector; returns None when it does not change the content
fn edit<T: Clone + PartialEq>(v: &[T], nb: Neighbour, other: impl Fn(&T, u16) -> T) -> Option<Vec<T>> {
    let n = v.len();
    let mut w = v.to_vec();
    match nb {
        Neighbour::Change(frac, d) => {
            if n == 0 {
                return None;
            }
            let i = (frac as usize * n) >> 16;
            let x = other(&w[i], d);
            if x == w[i] {
                return None;
            }
            w[i] = x;
        }
        Neighbour::Append(d) => {
            let x = match v.last() {
                Some(l) => other(l, d),
                None => return None,
            };
            w.push(x);
        }
        Neighbour::RemoveLast => {
            w.pop()?;
        }
        Neighbour::Swap(frac) => {
            if n < 2 {
                return None;
            }
            let s = (frac as usize * (n - 1)) >> 16;
            let i = (s..n - 1).chain(0..s).find(|&i| w[i] != w[i + 1])?;
            w.swap(i, i + 1);
        }
    }
    Some(w)
}

impl Prop for C19 {
    type Case = PathCase;
    fn id(&self) -> &'static str { "C19" }
    fn strategy(&self, tier: Tier, _b: &str) -> BoxedStrategy<PathCase> {
        let nb = prop_oneof![
            3 => (any::<u16>(), any::<u16>()).prop_map(|(a, b)| Neighbour::Change(a, b)),
            1 => any::<u16>().prop_map(Neighbour::Append),
            1 => Just(Neighbour::RemoveLast),
            2 => any::<u16>().prop_map(Neighbour::Swap),
        ];
        (any_case(tier, (6, 3, 2), &TreeKind::ALL), nb).prop_map(|(base, neighbour)| PathCase { base, neighbour }).boxed()
    }
    fn cases(&self, tier: Tier, build: &str) -> u32 {
        match (tier, build) {
            (Tier::Quick, "fast") => 5_000,
            (Tier::Quick, _) => 2_000,
            (Tier::Thorough, "fast") => 40_000,
            (Tier::Thorough, _) => 10_000,
        }
    }
    fn rule(&self) -> &'static str {
        "cases = (any structure from the shared generators, a neighbour edit: change one element / append / remove last / swap two distinct adjacent elements); all construction paths of the type are built from the same content and must give identical answer digests over one query plan (each also compared with the model) and, for plain trees and all non-Huffman structures, compare equal; clone == original with the same digest; the structure of the neighbour sequence (every path) must compare unequal; trees are rebuilt in every wider element type and checked against the same model; non-trivial = n >= 2, the neighbour differs, >= 2 paths compared; distinct = hash of the whole case"
    }
    fn sample(&self, c: &PathCase) -> Value {
        json!({"base": c.base.sample(), "neighbour": format!("{:?}", c.neighbour)})
    }
    fn simplify(&self, c: &PathCase) -> Vec<PathCase> {
        c.base.simplify().into_iter().map(|base| PathCase { base, neighbour: c.neighbour }).collect()
    }
    fn run(&self, c: &PathCase, ctx: &mut Ctx) -> CheckResult {
        let o = AnyOpts::new(false, if ctx.thorough { 40 } else { 25 }, true);
        let seed = c.base.plan_seed();
        ctx.label(&c.base.type_name());
        let digest = |v: &AnyVal, ctx: &mut Ctx| -> Result<u64, crate::runner::Failure> {
            let mut c2 = Ctx { build: ctx.build.clone(), ..Ctx::default() };
            v.check(seed, o, &mut c2)?;
            ctx.queries += c2.queries;
            ctx.excluded_known += c2.excluded_known;
            Ok(c2.transcript)
        };
        match &c.base {
            AnyCase::Seq(sc) => {
                let s = sc.content.expand();
                let m = SeqModel::new(s.clone());
                let who = format!("{}<{}>", sc.kind.name(), sc.ty.name());
                let mut vals: Vec<(How, AnyVal, u64)> = Vec::new();
                let lm = (sc.plan_seed >> 8) as u8;
                for how in How::PATHS.into_iter().chain([How::CollectLoose(lm % 64), How::CollectLoose(64 + lm % 64)]) {
                    let t = build_tree(sc.kind, sc.ty, how, &s, Some(sc.tie_seed));
                    let v = AnyVal::Seq(t, m.clone());
                    let d = match digest(&v, ctx) {
                        Ok(d) => d,
                        Err(e) => fail!("built with {:?}: {}", how, e.msg),
                    };
                    vals.push((how, v, d));
                }
                for w in vals.windows(2) {
                    ensure!(w[0].2 == w[1].2, "{who}: values built with {:?} and {:?} answer the query plan differently", w[0].0, w[1].0);
                    if !sc.kind.is_huffman() {
                        ensure!(w[0].1.eq_val(&w[1].1), "{who}: values built with {:?} and {:?} from the same sequence compare unequal", w[0].0, w[1].0);
                    }
                }
                // clone
                let cl = vals[0].1.clone_val();
                ensure!(cl.eq_val(&vals[0].1) && vals[0].1.eq_val(&cl), "{who}: clone() != original");
                let dc = digest(&cl, ctx)?;
                ensure!(dc == vals[0].2, "{who}: the clone answers the query plan differently");
                // neighbour sequence: must compare unequal, whichever path built it
                let tmax = sc.ty.max();
                let cap = crate::seqgen::symbol_cap(sc.kind, sc.ty, 1 << 20);
                let nb = edit(&s, c.neighbour, |x, d| {
                    let y = if d % 2 == 0 { x.wrapping_add(1 + (d as u128 >> 1) % 5) } else { *x ^ (1u128 << (d as u32 % 127)) };
                    let y = y & tmax;
                    if y > cap { x.saturating_sub(1) } else { y }
                });
                // the empty sequence has no edited neighbour: use a short fixed one, so that an empty
                // value is also the source of a clone_from into a non-empty one
                let nb = if s.is_empty() { Some(vec![1u128, 0, 1, 1]) } else { nb };
                let mut differs = false;
                if let Some(s2) = nb {
                    if s2 != s {
                        differs = true;
                        let m2 = SeqModel::new(s2.clone());
                        for how in How::PATHS {
                            let t2 = AnyVal::Seq(build_tree(sc.kind, sc.ty, how, &s2, Some(sc.tie_seed)), m2.clone());
                            if how == How::New {
                                // clone_from onto a value holding another sequence
                                if let Some(cf) = vals[0].1.clone_from_into(&t2) {
                                    ensure!(cf.eq_val(&vals[0].1), "{who}: after donor.clone_from(&x) (donor built from a different sequence of {} elements) donor != x", s2.len());
                                    ensure!(digest(&cf, ctx)? == vals[0].2, "{who}: after donor.clone_from(&x) the donor answers the query plan differently from x");
                                    // nothing of the donor's former content may survive: ask for its symbols
                                    if let (AnyVal::Seq(tc, _), AnyVal::Seq(tx, _)) = (&cf, &vals[0].1) {
                                        let mut olds: Vec<u128> = s2.clone();
                                        olds.sort_unstable();
                                        olds.dedup();
                                        for &sym in olds.iter().take(4).chain(olds.iter().rev().take(4)) {
                                            for i in [0usize, s.len() / 2, s.len(), s2.len()] {
                                                let (a, b) = (tc.rank(sym, i), tx.rank(sym, i));
                                                ensure!(a == b, "{who}: after donor.clone_from(&x), donor.rank({sym}, {i}) = {:?} but x.rank = {:?} ({sym} is a symbol of the donor's former content; |x| = {}, |donor| was {})", a, b, s.len(), s2.len());
                                            }
                                            for k in [0usize, 1, s2.len()] {
                                                let (a, b) = (tc.select(sym, k), tx.select(sym, k));
                                                ensure!(a == b, "{who}: after donor.clone_from(&x), donor.select({sym}, {k}) = {:?} but x.select = {:?} ({sym} is a symbol of the donor's former content; |x| = {}, |donor| was {})", a, b, s.len(), s2.len());
                                            }
                                        }
                                    }
                                    ctx.label("clone_from");
                                }
                            }
                            for (h1, v1, _) in &vals {
                                ensure!(!v1.eq_val(&t2) && !t2.eq_val(v1), "{who}: tree of S (built {:?}) == tree of a different sequence S' (built {:?}); n = {}, edit = {:?}", h1, how, s.len(), c.neighbour);
                            }
                        }
                        ctx.q();
                    }
                }
                // the same numbers in every wider element type
                let mx = m.max().unwrap_or(0);
                let mut widened = 0;
                for ty in ElemTy::ALL {
                    if ty.bits() > sc.ty.bits() || (ty != sc.ty && ty.bits() == sc.ty.bits()) {
                        if mx <= ty.max() && (s.len() as u128) * (ty.bits() as u128) <= 4_000_000 {
                            let t = AnyVal::Seq(build_tree(sc.kind, ty, sc.how, &s, Some(sc.tie_seed)), m.clone());
                            if let Err(e) = digest(&t, ctx) {
                                fail!("same numbers carried as {}: {}", ty.name(), e.msg);
                            }
                            widened += 1;
                        }
                    }
                }
                if widened > 0 { ctx.label("rebuilt-in-wider-type"); }
                ctx.nontrivial = s.len() >= 2 && differs;
            }
            AnyCase::Bits(bc) => {
                let raw = bc.content.expand();
                // compare on the prefix ending at the last one, so that position-based paths apply
                let bits = crate::bits::effective_bits(BvHow::PosUsize, &raw);
                let m = BitModel::new(bits.clone());
                let who = bc.kind.name();
                let mut paths: Vec<(BvHow, WrapHow)> = vec![(BvHow::Bools, WrapHow::New), (BvHow::Pushes, WrapHow::From), (BvHow::PosUsize, WrapHow::New), (BvHow::PosU32, WrapHow::From), (BvHow::PosI64, WrapHow::New), (BvHow::ZerosThenPush, WrapHow::From), (BvHow::PosDup, WrapHow::New)];
                let lm = (bc.plan_seed >> 8) as u8;
                paths.push((BvHow::BoolsLoose(lm), WrapHow::New));
                paths.push((BvHow::PosLoose(lm.wrapping_add(64)), WrapHow::From));
                paths.push((BvHow::ExtendPieces(lm), WrapHow::New));
                paths.push((BvHow::ZerosThenSet, WrapHow::From));
                if matches!(bc.kind, BitsKind::Da0 | BitsKind::Da1 | BitsKind::Bvm) {
                    paths.push((BvHow::BoolsLoose(lm.wrapping_add(128)), WrapHow::Collect));
                    paths.push((BvHow::Bools, WrapHow::Collect));
                    paths.push((BvHow::PosUsize, WrapHow::Collect));
                }
                if matches!(bc.kind, BitsKind::Da0 | BitsKind::Da1) {
                    paths.push((BvHow::PosU64, WrapHow::Collect));
                }
                let mut vals: Vec<((BvHow, WrapHow), AnyVal, u64)> = Vec::new();
                for p in paths {
                    let v = AnyVal::Bits(BitsVal::build(bc.kind, p.0, p.1, &bits), m.clone());
                    let d = match digest(&v, ctx) {
                        Ok(d) => d,
                        Err(e) => fail!("built with {:?}: {}", p, e.msg),
                    };
                    vals.push((p, v, d));
                }
                for w in vals.windows(2) {
                    ensure!(w[0].2 == w[1].2, "{who}: values built with {:?} and {:?} answer the query plan differently", w[0].0, w[1].0);
                    ensure!(w[0].1.eq_val(&w[1].1), "{who}: values built with {:?} and {:?} from the same bits compare unequal (n = {})", w[0].0, w[1].0, bits.len());
                }
                let cl = vals[0].1.clone_val();
                ensure!(cl.eq_val(&vals[0].1), "{who}: clone() != original");
                ensure!(digest(&cl, ctx)? == vals[0].2, "{who}: the clone answers the query plan differently");
                let mut differs = false;
                if let Some(b2) = edit(&bits, c.neighbour, |x, _| !*x) {
                    if b2 != bits {
                        differs = true;
                        for p in [(BvHow::Bools, WrapHow::New), (BvHow::Pushes, WrapHow::From)] {
                            let v2 = AnyVal::Bits(BitsVal::build(bc.kind, p.0, p.1, &b2), BitModel::new(b2.clone()));
                            if p.1 == WrapHow::New {
                                if let Some(cf) = vals[0].1.clone_from_into(&v2) {
                                    ensure!(cf.eq_val(&vals[0].1), "{who}: after donor.clone_from(&x) (donor built from {} different bits) donor != x", b2.len());
                                    ensure!(digest(&cf, ctx)? == vals[0].2, "{who}: after donor.clone_from(&x) the donor answers the query plan differently from x");
                                    ctx.label("clone_from");
                                }
                            }
                            for (p1, v1, _) in &vals {
                                ensure!(!v1.eq_val(&v2), "{who}: value of B (built {:?}) == value of different bits B' (built {:?}); n = {}, edit = {:?}", p1, p, bits.len(), c.neighbour);
                            }
                        }
                        ctx.q();
                    }
                }
                // clone_from into destinations of other shapes: much longer, a few words longer
                // within the same line, and empty
                {
                    let mut r = crate::util::Rng::new(bc.plan_seed ^ 0xc10e);
                    let mut longer = bits.clone();
                    longer.extend((0..1300 + r.below_usize(900)).map(|_| r.below(3) != 0));
                    let mut same_line = bits.clone();
                    same_line.extend(std::iter::repeat(true).take(65 + r.below_usize(120)));
                    for (what, d) in [("a much longer", longer), ("a slightly longer", same_line), ("an empty", vec![])] {
                        let donor = AnyVal::Bits(BitsVal::build(bc.kind, BvHow::Bools, WrapHow::New, &d), BitModel::new(d.clone()));
                        if let Some(cf) = vals[0].1.clone_from_into(&donor) {
                            ensure!(cf.eq_val(&vals[0].1) && vals[0].1.eq_val(&cf), "{who}: after donor.clone_from(&x) into {what} donor ({} bits, x has {}) donor != x", d.len(), bits.len());
                            ensure!(digest(&cf, ctx)? == vals[0].2, "{who}: after donor.clone_from(&x) into {what} donor ({} bits, x has {}) the donor answers the query plan differently from x", d.len(), bits.len());
                            ctx.label("clone_from-other-shape");
                        }
                    }
                }
                ctx.nontrivial = bits.len() >= 2 && differs;
            }
            AnyCase::Quad(qc) => {
                let q = qc.content.expand();
                let m = QuadModel::new(q.clone());
                let who = qc.kind.name();
                let paths = [QuadHow::FromQVector(IntTy::U8), QuadHow::FromQVector(IntTy::I64), QuadHow::NewSlice(IntTy::U16), QuadHow::NewSlice(IntTy::U128), QuadHow::Collect(IntTy::I8), QuadHow::Collect(IntTy::Usize), QuadHow::Builder(4), QuadHow::Builder(17), QuadHow::Builder(1),
                    QuadHow::CollectLoose(IntTy::U8, (qc.plan_seed >> 8) as u8), QuadHow::CollectLoose(IntTy::I32, 64 + (qc.plan_seed >> 16) as u8 % 64), QuadHow::BuilderPieces((qc.plan_seed >> 24) as u8)];
                let mut vals: Vec<(QuadHow, AnyVal, u64)> = Vec::new();
                for p in paths {
                    let v = AnyVal::Quad(QuadVal::build(qc.kind, p, &q, qc.salt), m.clone());
                    let d = match digest(&v, ctx) {
                        Ok(d) => d,
                        Err(e) => fail!("built with {:?}: {}", p, e.msg),
                    };
                    vals.push((p, v, d));
                }
                for w in vals.windows(2) {
                    ensure!(w[0].2 == w[1].2, "{who}: values built with {:?} and {:?} answer the query plan differently", w[0].0, w[1].0);
                    ensure!(w[0].1.eq_val(&w[1].1), "{who}: values built with {:?} and {:?} from the same symbols compare unequal (n = {})", w[0].0, w[1].0, q.len());
                }
                let cl = vals[0].1.clone_val();
                ensure!(cl.eq_val(&vals[0].1), "{who}: clone() != original");
                ensure!(digest(&cl, ctx)? == vals[0].2, "{who}: the clone answers the query plan differently");
                let mut differs = false;
                if let Some(q2) = edit(&q, c.neighbour, |x, d| (x + 1 + (d % 3) as u8) & 3) {
                    if q2 != q {
                        differs = true;
                        for p in [QuadHow::FromQVector(IntTy::U8), QuadHow::Collect(IntTy::I32)] {
                            let v2 = AnyVal::Quad(QuadVal::build(qc.kind, p, &q2, 0), QuadModel::new(q2.clone()));
                            if p == QuadHow::FromQVector(IntTy::U8) {
                                if let Some(cf) = vals[0].1.clone_from_into(&v2) {
                                    ensure!(cf.eq_val(&vals[0].1), "{who}: after donor.clone_from(&x) (donor built from {} different symbols) donor != x", q2.len());
                                    ensure!(digest(&cf, ctx)? == vals[0].2, "{who}: after donor.clone_from(&x) the donor answers the query plan differently from x");
                                    ctx.label("clone_from");
                                }
                            }
                            for (p1, v1, _) in &vals {
                                ensure!(!v1.eq_val(&v2), "{who}: value of Q (built {:?}) == value of a different sequence Q' (built {:?}); n = {}, edit = {:?}", p1, p, q.len(), c.neighbour);
                            }
                        }
                        ctx.q();
                    }
                }
                {
                    let mut r = crate::util::Rng::new(qc.plan_seed ^ 0xc10e);
                    let mut longer = q.clone();
                    longer.extend((0..700 + r.below_usize(900)).map(|_| r.below(4) as u8));
                    let mut same_line = q.clone();
                    same_line.extend(std::iter::repeat(3u8).take(33 + r.below_usize(60)));
                    for (what, d) in [("a much longer", longer), ("a slightly longer", same_line), ("an empty", vec![])] {
                        let donor = AnyVal::Quad(QuadVal::build(qc.kind, QuadHow::FromQVector(IntTy::U8), &d, 0), QuadModel::new(d.clone()));
                        if let Some(cf) = vals[0].1.clone_from_into(&donor) {
                            ensure!(cf.eq_val(&vals[0].1) && vals[0].1.eq_val(&cf), "{who}: after donor.clone_from(&x) into {what} donor ({} symbols, x has {}) donor != x", d.len(), q.len());
                            ensure!(digest(&cf, ctx)? == vals[0].2, "{who}: after donor.clone_from(&x) into {what} donor ({} symbols, x has {}) the donor answers the query plan differently from x", d.len(), q.len());
                            ctx.label("clone_from-other-shape");
                        }
                    }
                }
                ctx.nontrivial = q.len() >= 2 && differs;
            }
        }
        let _ = (unreachable_fail, |_: &SeqCase, _: &BitsCase, _: &QuadCase, _: &Content, _: &BitContent, _: &QuadContent, _: QuadKind, _: TreeKind| ());
        Ok(())
    }
}

#[allow(dead_code)]
fn unreachable_fail() -> CheckResult {
    fail!("unreachable")
}
