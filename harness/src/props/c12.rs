//! C12: iterators yield exactly the indexed sequence, from both ends, with exact length.
use crate::anycase::{any_case, AnyCase, AnyVal};
use crate::runner::{CheckResult, Ctx, Prop, Tier};
use crate::trees::{DynIter, TreeKind};
use crate::util::note;
use crate::{ensure, fail};
use proptest::prelude::*;
use serde::{Deserialize, Serialize};
use serde_json::{json, Value};
use std::collections::VecDeque;

#[derive(Clone, Copy, Debug, PartialEq, Eq, Hash, Serialize, Deserialize)]
pub enum IterOp {
    Next,
    NextBack,
    Len,
    /// `nth(n)`: skips n elements, yields the next one
    Nth(u8),
    NthBack(u8),
}

#[derive(Clone, Copy, Debug, PartialEq, Eq, Hash, Serialize, Deserialize)]
pub enum Which {
    Iter,
    RefIntoIter,
    IntoIter,
}

#[derive(Clone, Debug, PartialEq, Eq, Hash, Serialize, Deserialize)]
pub struct IterCase {
    pub base: AnyCase,
    pub which: Which,
    pub hist: Vec<IterOp>,
    /// after the history: keep applying this cyclic pattern until both ends are exhausted
    pub drain: Vec<IterOp>,
}

pub struct C12;

fn run_tree_history(mut it: Box<dyn DynIter + '_>, s: &[u128], c: &IterCase, who: &str, ctx: &mut Ctx) -> Result<(bool, bool), crate::runner::Failure> {
    let mut model: VecDeque<u128> = s.iter().copied().collect();
    let mut exhausted_front = false;
    let mut exhausted_back = false;
    let mut saw_back_after_next = false;
    let mut saw_next = false;
    let mut after_exhaustion = false;
    let mut step = 0usize;
    let mut apply = |op: IterOp, it: &mut Box<dyn DynIter + '_>, model: &mut VecDeque<u128>| -> CheckResult {
        step += 1;
        match op {
            IterOp::Next => {
                note("iter.next", step as u128, 0, 0);
                let g = it.next();
                let e = model.pop_front();
                ensure!(g == e, "{who}: step {step}: next() = {:?}, expected {:?} ({} left)", g, e, model.len());
                saw_next = true;
                if e.is_none() {
                    if exhausted_front { after_exhaustion = true; }
                    exhausted_front = true;
                }
            }
            IterOp::NextBack => {
                note("iter.next_back", step as u128, 0, 0);
                let g = it.next_back();
                let e = model.pop_back();
                ensure!(g == e, "{who}: step {step}: next_back() = {:?}, expected {:?} ({} left)", g, e, model.len());
                if saw_next { saw_back_after_next = true; }
                if e.is_none() {
                    if exhausted_back { after_exhaustion = true; }
                    exhausted_back = true;
                }
            }
            IterOp::Len => {
                note("iter.len", step as u128, 0, 0);
                let g = it.len();
                ensure!(g == model.len(), "{who}: step {step}: len() = {g}, expected {}", model.len());
                let (lo, hi) = it.size_hint();
                ensure!(lo <= model.len() && hi.map_or(true, |h| h >= model.len()), "{who}: step {step}: size_hint() = ({lo}, {:?}) with {} elements left", hi, model.len());
            }
            IterOp::Nth(n) => {
                // 250..=255 stand for usize::MAX - 5 ..= usize::MAX
                let n: usize = if n >= 250 { usize::MAX - (255 - n) as usize } else { n as usize };
                note("iter.nth", step as u128, n as u128, 0);
                let g = it.nth(n);
                for _ in 0..n.min(model.len()) {
                    model.pop_front();
                }
                let e = model.pop_front();
                ensure!(g == e, "{who}: step {step}: nth({n}) = {:?}, expected {:?} ({} left)", g, e, model.len());
                saw_next = true;
                if e.is_none() {
                    if exhausted_front { after_exhaustion = true; }
                    exhausted_front = true;
                }
            }
            IterOp::NthBack(n) => {
                let n: usize = if n >= 250 { usize::MAX - (255 - n) as usize } else { n as usize };
                note("iter.nth_back", step as u128, n as u128, 0);
                let g = it.nth_back(n);
                for _ in 0..n.min(model.len()) {
                    model.pop_back();
                }
                let e = model.pop_back();
                ensure!(g == e, "{who}: step {step}: nth_back({n}) = {:?}, expected {:?} ({} left)", g, e, model.len());
                if saw_next { saw_back_after_next = true; }
                if e.is_none() {
                    if exhausted_back { after_exhaustion = true; }
                    exhausted_back = true;
                }
            }
        }
        // len is checked after every step as well
        note("iter.len", step as u128, 0, 0);
        let g = it.len();
        ensure!(g == model.len(), "{who}: after step {step} ({:?}): len() = {g}, expected {}", op, model.len());
        Ok(())
    };
    for &op in &c.hist {
        apply(op, &mut it, &mut model)?;
        ctx.q();
    }
    let pat: Vec<IterOp> = if c.drain.iter().any(|o| *o != IterOp::Len) { c.drain.clone() } else { vec![IterOp::Next] };
    let mut k = 0;
    while !model.is_empty() {
        apply(pat[k % pat.len()], &mut it, &mut model)?;
        ctx.q();
        k += 1;
    }
    // calls after exhaustion: None forever, length 0
    for j in 0..12 {
        apply(if j % 3 == 2 { IterOp::NextBack } else if j % 3 == 1 { IterOp::Len } else { IterOp::Next }, &mut it, &mut model)?;
    }
    Ok((saw_back_after_next, after_exhaustion))
}

/// boxed flavour (reaches only `next` / `nth` / `size_hint` overrides); the concrete-type checks
/// live in `crate::iteradapt`
pub fn check_adapters<'a, X: PartialEq + Copy + std::fmt::Debug>(mk: &dyn Fn() -> Box<dyn Iterator<Item = X> + 'a>, e: &[X], seed: u64, who: &str, ctx: &mut Ctx) -> CheckResult {
    crate::iteradapt::check_adapters(|| mk(), e, seed, who, ctx)
}

/// single-ended exact-size iterator over bits
fn check_exact_bits(mut it: Box<dyn ExactSizeIterator<Item = bool> + '_>, b: &[bool], who: &str, ctx: &mut Ctx) -> CheckResult {
    let n = b.len();
    for i in 0..n {
        ensure!(it.len() == n - i, "{who}: len() = {} with {} items left", it.len(), n - i);
        let x = it.next();
        ensure!(x == Some(b[i]), "{who}: item {i} = {:?}, expected {}", x, b[i]);
    }
    ctx.queries += n as u64;
    for _ in 0..10 {
        note("len after exhaustion", 0, 0, 0);
        let l = it.len();
        ensure!(l == 0, "{who}: len() = {l} after exhaustion");
        ensure!(it.next().is_none(), "{who}: yields an item after returning None");
    }
    note("len after exhaustion", 0, 0, 0);
    let l = it.len();
    ensure!(l == 0, "{who}: len() = {l} after repeated calls past the end");
    Ok(())
}

impl Prop for C12 {
    type Case = IterCase;
    fn id(&self) -> &'static str { "C12" }
    fn strategy(&self, tier: Tier, _b: &str) -> BoxedStrategy<IterCase> {
        let op = prop_oneof![6 => Just(IterOp::Next), 5 => Just(IterOp::NextBack), 2 => Just(IterOp::Len),
            1 => prop_oneof![3 => 0u8..4, 2 => any::<u8>(), 1 => 250u8..=255].prop_map(IterOp::Nth), 1 => prop_oneof![3 => 0u8..4, 2 => any::<u8>(), 1 => 250u8..=255].prop_map(IterOp::NthBack)];
        let hist = prop_oneof![
            3 => proptest::collection::vec(op.clone(), 0..40),
            2 => proptest::collection::vec(op.clone(), 0..600),
        ];
        (
            any_case(tier, (6, 2, 2), &TreeKind::ALL),
            prop_oneof![Just(Which::Iter), Just(Which::RefIntoIter), Just(Which::IntoIter)],
            hist,
            proptest::collection::vec(op, 0..5),
        )
            .prop_map(|(base, which, hist, drain)| IterCase { base, which, hist, drain })
            .boxed()
    }
    fn cases(&self, tier: Tier, build: &str) -> u32 {
        match (tier, build) {
            (Tier::Quick, "fast") => 20_000,
            (Tier::Quick, "asan") => 1_600,
            (Tier::Quick, _) => 8_000,
            (Tier::Thorough, "fast") => 120_000,
            (Tier::Thorough, "asan") => 8_000,
            (Tier::Thorough, _) => 30_000,
        }
    }
    fn builds(&self, _tier: Tier) -> Vec<&'static str> { vec!["fast", "checked", "asan"] }
    fn rule(&self) -> &'static str {
        "cases = (any structure from the shared generators, which iterator: iter() / (&x).into_iter() / into_iter(), a call history over {next, next_back, len}, a cyclic drain pattern applied until exhaustion, then 12 more calls); trees are checked against a VecDeque with len() compared after every step; bit and quad iterators for order, count, exact length and staying exhausted; non-trivial = n >= 3 and (trees) a next_back after a next plus a call after exhaustion; distinct = hash of the whole case"
    }
    fn sample(&self, c: &IterCase) -> Value {
        json!({"base": c.base.sample(), "which": format!("{:?}", c.which), "history_len": c.hist.len(), "history_head": format!("{:?}", &c.hist[..c.hist.len().min(12)]), "drain": format!("{:?}", c.drain)})
    }
    fn simplify(&self, c: &IterCase) -> Vec<IterCase> {
        let mut v: Vec<IterCase> = crate::runner::chunk_removals(&c.hist, 8).into_iter().map(|hist| IterCase { hist, ..c.clone() }).collect();
        v.extend(c.base.simplify().into_iter().map(|base| IterCase { base, ..c.clone() }));
        v
    }
    fn run(&self, c: &IterCase, ctx: &mut Ctx) -> CheckResult {
        let v = c.base.build();
        let who = format!("{} {:?}", c.base.type_name(), c.which);
        ctx.label(&c.base.type_name());
        ctx.label(&format!("{:?}", c.which));
        match v {
            AnyVal::Seq(t, m) => {
                let n = m.n();
                let (back_after_next, after_exh) = match c.which {
                    Which::Iter => run_tree_history(t.iter_box(), &m.s, c, &who, ctx)?,
                    Which::RefIntoIter => run_tree_history(t.ref_into_iter_box(), &m.s, c, &who, ctx)?,
                    Which::IntoIter => run_tree_history(t.into_iter_box(), &m.s, c, &who, ctx)?,
                };
                if back_after_next { ctx.label("next_back-after-next"); }
                if n <= 4_000 && c.base.plan_seed() % 2 == 0 {
                    let t2 = c.base.build();
                    if let AnyVal::Seq(t2, m2) = t2 {
                        t2.check_iter_adapters(&m2.s, c.base.plan_seed(), ctx)?;
                    }
                }
                let _ = after_exh;
                ctx.nontrivial = n >= 3 && back_after_next;
            }
            AnyVal::Bits(bv, m) => {
                ctx.nontrivial = m.n() >= 3;
                let mut rng = crate::util::Rng::new(c.base.plan_seed());
                crate::bitcheck::check_bit_iterators(&bv, &m, &mut rng, crate::bitcheck::BitOpts { budget: 20, ..Default::default() }, ctx)?;
                if let Some(it) = bv.iter() {
                    check_exact_bits(it, &m.b, &format!("{who} iter()"), ctx)?;
                }
                if let Some(it) = bv.ref_into_iter() {
                    check_exact_bits(it, &m.b, &format!("{who} (&bv).into_iter()"), ctx)?;
                }
                if let Some(it) = bv.clone().into_iter() {
                    check_exact_bits(it, &m.b, &format!("{who} into_iter()"), ctx)?;
                }
                let seed = c.base.plan_seed();
                if bv.iter().is_some() {
                    check_adapters(&|| -> Box<dyn Iterator<Item = bool> + '_> { Box::new(bv.iter().unwrap()) }, &m.b, seed, &format!("{who} iter()"), ctx)?;
                }
                if bv.ones().is_some() && m.n() <= 200_000 {
                    check_adapters(&|| bv.ones().unwrap(), &m.ones, seed ^ 1, &format!("{who} ones()"), ctx)?;
                    check_adapters(&|| bv.zeros().unwrap(), &m.zeros, seed ^ 2, &format!("{who} zeros()"), ctx)?;
                }
                if bv.clone().into_iter().is_some() && m.n() <= 20_000 {
                    check_adapters(&|| -> Box<dyn Iterator<Item = bool> + '_> { Box::new(bv.clone().into_iter().unwrap()) }, &m.b, seed ^ 3, &format!("{who} into_iter()"), ctx)?;
                }
            }
            AnyVal::Quad(qv, m) => {
                ctx.nontrivial = m.n() >= 3;
                for (name, mut it) in [("iter()", qv.iter()), ("(&v).into_iter()", qv.ref_into_iter()), ("into_iter()", qv.clone().into_iter())] {
                    for i in 0..m.n() {
                        let x = it.next();
                        ensure!(x == Some(m.q[i]), "{who}: {name} item {i} = {:?}, expected {}", x, m.q[i]);
                    }
                    ctx.queries += m.n() as u64;
                    for _ in 0..12 {
                        ensure!(it.next().is_none(), "{who}: {name} yields an item after returning None");
                    }
                }
                let seed = c.base.plan_seed();
                check_adapters(&|| qv.iter(), &m.q, seed, &format!("{who} iter()"), ctx)?;
                check_adapters(&|| qv.ref_into_iter(), &m.q, seed ^ 1, &format!("{who} (&v).into_iter()"), ctx)?;
                if m.n() <= 20_000 {
                    check_adapters(&|| -> Box<dyn Iterator<Item = u8> + '_> { qv.clone().into_iter() }, &m.q, seed ^ 2, &format!("{who} into_iter()"), ctx)?;
                }
            }
        }
        let _ = unreachable_fail;
        Ok(())
    }
}

#[allow(dead_code)]
fn unreachable_fail() -> CheckResult {
    fail!("unreachable")
}
