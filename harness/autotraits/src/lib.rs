//! Compile-time probe for C18: every public query structure must be Send + Sync.
//! If qwt compiles (the main harness built) and this crate does not, a type lost an auto trait.
#![allow(dead_code)]
use qwt::*;

fn assert_send_sync<T: Send + Sync>() {}

macro_rules! trees {
    ($($t:ty),*) => {$(
        assert_send_sync::<QWT256<$t>>();
        assert_send_sync::<QWT512<$t>>();
        assert_send_sync::<QWT256Pfs<$t>>();
        assert_send_sync::<QWT512Pfs<$t>>();
        assert_send_sync::<HQWT256<$t>>();
        assert_send_sync::<HQWT512<$t>>();
        assert_send_sync::<HQWT256Pfs<$t>>();
        assert_send_sync::<HQWT512Pfs<$t>>();
        assert_send_sync::<WT<$t>>();
        assert_send_sync::<HWT<$t>>();
    )*};
}

pub fn probe() {
    assert_send_sync::<BitVector>();
    assert_send_sync::<BitVectorMut>();
    assert_send_sync::<QVector>();
    assert_send_sync::<RSQVector256>();
    assert_send_sync::<RSQVector512>();
    assert_send_sync::<RSNarrow>();
    assert_send_sync::<RSWide>();
    assert_send_sync::<DArray<false>>();
    assert_send_sync::<DArray<true>>();
    trees!(u8, u16, u32, u64, usize, u128);
}

fn is_send_sync<T: Send + Sync>(_: &T) {}

/// The iterator / view types handed out by the structures (type-checked only, never run): a
/// view created by one thread must be movable to and shareable with another one.
macro_rules! tree_iters {
    ($($tree:ty),*) => {$(
        {
            let t: $tree = Default::default();
            is_send_sync(&t.iter());
            is_send_sync(&(&t).into_iter());
            is_send_sync(&t.clone().into_iter());
        }
    )*};
}

pub fn probe_iterators() {
    tree_iters!(QWT256<u8>, QWT512Pfs<u64>, HQWT256<u16>, HQWT512Pfs<u32>, WT<u8>, HWT<u128>);
    let bv = BitVector::default();
    is_send_sync(&bv.iter());
    is_send_sync(&bv.ones());
    is_send_sync(&bv.zeros());
    is_send_sync(&bv.ones_with_pos(0));
    is_send_sync(&(&bv).into_iter());
    is_send_sync(&bv.clone().into_iter());
    let bvm = BitVectorMut::default();
    is_send_sync(&bvm.iter());
    is_send_sync(&bvm.ones());
    is_send_sync(&bvm.zeros());
    let da = DArray::<true>::default();
    is_send_sync(&da.iter());
    is_send_sync(&da.ones());
    is_send_sync(&da.zeros());
    let qv = QVector::default();
    is_send_sync(&qv.iter());
    is_send_sync(&(&qv).into_iter());
    is_send_sync(&qv.clone().into_iter());
    let rs = RSQVector256::default();
    is_send_sync(&rs.iter());
    is_send_sync(&(&rs).into_iter());
    is_send_sync(&rs.clone().into_iter());
    assert_send_sync::<QVectorBuilder>();
}
