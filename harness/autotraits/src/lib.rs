//! Compile-time probe for C18: every public query structure must be Send + Sync.
//! If qwt compiles (the main harness built) and this crate does not, a type lost an auto trait.
#![allow(dead_code)]
use qwt::*;

fn assert_send_sync<T: Send + Sync>() {}

macro_rules! trees {
    ($($t:ty),*) => {$(
        assert_send_sync::<QWT256<$t>>();
        assert_send_sync::<QWT512<$t>>();
        assert_send_sync::<QWT256Pfs<$t>>();
        assert_send_sync::<QWT512Pfs<$t>>();
        assert_send_sync::<HQWT256<$t>>();
        assert_send_sync::<HQWT512<$t>>();
        assert_send_sync::<HQWT256Pfs<$t>>();
        assert_send_sync::<HQWT512Pfs<$t>>();
        assert_send_sync::<WT<$t>>();
        assert_send_sync::<HWT<$t>>();
    )*};
}

pub fn probe() {
    assert_send_sync::<BitVector>();
    assert_send_sync::<BitVectorMut>();
    assert_send_sync::<QVector>();
    assert_send_sync::<RSQVector256>();
    assert_send_sync::<RSQVector512>();
    assert_send_sync::<RSNarrow>();
    assert_send_sync::<RSWide>();
    assert_send_sync::<DArray<false>>();
    assert_send_sync::<DArray<true>>();
    trees!(u8, u16, u32, u64, usize, u128);
}
