#![no_main]
// bytes -> (tree kind, element type, construction path, alphabet map, sequence, tie seed, plan seed)
// oracle: sequence model, incl. rank_prefetch and the unchecked twins (serves C01 C02 C03 C09 C10)
use libfuzzer_sys::fuzz_target;
include!("common.rs");
use qv::elem::ElemTy;
use qv::seqgen::{Content, SeqCase};
use qv::trees::{How, TreeKind};

fuzz_target!(|data: &[u8]| {
    let mut u = Unstructured::new(data);
    let kind = pick(&mut u, &TreeKind::ALL);
    let ty = pick(&mut u, &ElemTy::ALL);
    let lm: u8 = (data.len() as u8).wrapping_mul(29);
    let how = pick(&mut u, &[How::New, How::FromVec, How::Collect, How::Default, How::CollectLoose(lm), How::CollectLoose(lm.wrapping_add(77))]);
    let tie_seed: u64 = u.arbitrary().unwrap_or(0);
    let plan_seed: u64 = u.arbitrary().unwrap_or(0);
    // alphabet: up to 16 symbols, each with a generated bit length
    let cap = qv::seqgen::symbol_cap(kind, ty, 1 << 16);
    let d = u.int_in_range(1..=16usize).unwrap_or(1);
    let mut alpha: Vec<u128> = Vec::new();
    for _ in 0..d {
        let bits = u.int_in_range(0..=128u32).unwrap_or(0);
        let raw: u128 = u.arbitrary().unwrap_or(0);
        let v = if bits == 0 { 0 } else { (raw | (1u128 << (bits - 1).min(127))) & (u128::MAX >> (128 - bits.min(128))) };
        alpha.push(v.min(cap));
    }
    // rest of the input: one byte per symbol; high nibble = run length - 1 when the mode bit is set
    let runs = u.arbitrary::<bool>().unwrap_or(false);
    let mut s: Vec<u128> = Vec::new();
    while let Ok(b) = u.arbitrary::<u8>() {
        let sym = alpha[(b & 15) as usize % alpha.len()];
        let rep = if runs { 1 + (b >> 4) as usize * 37 } else { 1 };
        for _ in 0..rep {
            s.push(sym);
        }
        if s.len() > 8_000 {
            break;
        }
    }
    let how = if how == How::Default && !s.is_empty() { How::New } else { how };
    let case = SeqCase { kind, ty, how, content: Content::Explicit(s), tie_seed, plan_seed };
    let prop = qv::props::seqexact::SeqExact { id: "C10", kinds: &TreeKind::ALL };
    // C10-style run: exact answers + unchecked twins
    if let Ok(path) = std::env::var("QV_DUMP") {
        std::fs::write(path, case_file(if kind.is_huffman() { if kind.is_quad() { "C02" } else { "C03" } } else if kind.is_quad() { "C01" } else { "C03" }, "fuzz", "decoded from a fuzz input", &case)).unwrap();
        return;
    }
    let _ = prop;
    let v = qv::anycase::AnyCase::Seq(case).build();
    let mut ctx = Ctx::default();
    if let Err(f) = v.check(plan_seed, qv::anycase::AnyOpts::new(true, 12, true), &mut ctx) {
        panic!("sequence oracle violated: {}", f.msg);
    }
});
