#![no_main]
// bytes -> operation history over BitVectorMut (serves C08)
use libfuzzer_sys::fuzz_target;
include!("common.rs");
use qv::props::c08::{BvmCase, BvmOp, BvmStart, C08};

fuzz_target!(|data: &[u8]| {
    let mut u = Unstructured::new(data);
    let start = match u.int_in_range(0..=4u8).unwrap_or(0) {
        0 => BvmStart::New,
        1 => BvmStart::WithCapacity(u.int_in_range(0..=3000usize).unwrap_or(0)),
        2 => BvmStart::WithZeros(u.int_in_range(0..=1500usize).unwrap_or(0)),
        3 => BvmStart::CollectBools((0..u.int_in_range(0..=200usize).unwrap_or(0)).map(|_| u.arbitrary().unwrap_or(false)).collect()),
        _ => BvmStart::CollectPositions((0..u.int_in_range(0..=20usize).unwrap_or(0)).map(|_| u.int_in_range(0..=1400u16).unwrap_or(0)).collect()),
    };
    let plan_seed: u64 = u.arbitrary().unwrap_or(0);
    let mut ops = Vec::new();
    while let Ok(t) = u.arbitrary::<u8>() {
        let op = match t % 16 {
            0 => BvmOp::Push(u.arbitrary().unwrap_or(false)),
            1 => BvmOp::PushRun(u.arbitrary().unwrap_or(false), u.int_in_range(1..=130u16).unwrap_or(1)),
            2 | 3 => BvmOp::AppendBits { bits: u.arbitrary().unwrap_or(0), len: u.int_in_range(0..=64u8).unwrap_or(0) },
            4 => BvmOp::ExtendWithZeros(u.int_in_range(0..=1500u16).unwrap_or(0)),
            5 | 6 => BvmOp::Set { frac: u.arbitrary().unwrap_or(0), bit: u.arbitrary().unwrap_or(false) },
            7 | 8 => BvmOp::SetBits { frac: u.arbitrary().unwrap_or(0), len: u.int_in_range(0..=64u8).unwrap_or(0), bits: u.arbitrary().unwrap_or(0) },
            9 => BvmOp::ExtendPositions { fracs: (0..u.int_in_range(0..=8usize).unwrap_or(0)).map(|_| u.arbitrary().unwrap_or(0)).collect(), slack: u.int_in_range(0..=1500u16).unwrap_or(0) },
            10 => BvmOp::IntoImmutableAndBack,
            11 => BvmOp::RebuildFromIter,
            12 => BvmOp::ExtendLoose { bools: (0..u.int_in_range(0..=700usize).unwrap_or(0)).map(|_| u.arbitrary().unwrap_or(false)).collect(), mode: u.arbitrary().unwrap_or(0) },
            13 => BvmOp::ExtendPattern { seed: u.arbitrary().unwrap_or(0), len: u.int_in_range(0..=1200u32).unwrap_or(0), sparse_lg: u.int_in_range(0..=8u8).unwrap_or(0), mode: u.arbitrary().unwrap_or(0) },
            14 => BvmOp::RebuildFromLooseIter(u.arbitrary().unwrap_or(0)),
            _ => BvmOp::ViaLooseBitVector(u.arbitrary().unwrap_or(0)),
        };
        ops.push(op);
        if ops.len() >= 120 {
            break;
        }
    }
    run_case(&C08, &BvmCase { start, ops, plan_seed });
});
