// shared by the fuzz targets (included with `include!`)
use arbitrary::Unstructured;
use qv::runner::{case_file, Ctx, Prop};

/// Runs one decoded case through the property's own oracle. A failure becomes a panic (libFuzzer
/// crash). With QV_DUMP=<path> the decoded case is written as a replay file instead of being run.
pub fn run_case<P: Prop>(p: &P, case: &P::Case) {
    static HOOK: std::sync::Once = std::sync::Once::new();
    HOOK.call_once(qv::util::install_fuzz_panic_hook);
    if let Ok(path) = std::env::var("QV_DUMP") {
        std::fs::write(path, case_file(p.id(), "fuzz", "decoded from a fuzz input", case)).unwrap();
        return;
    }
    let mut ctx = Ctx { strict: std::env::var("QV_STRICT").is_ok(), build: "fuzz".into(), ..Ctx::default() };
    if let Err(f) = p.run(case, &mut ctx) {
        panic!("property {} violated: {}", p.id(), f.msg);
    }
}

#[allow(dead_code)]
pub fn pick<T: Copy>(u: &mut Unstructured, xs: &[T]) -> T {
    let i = u.int_in_range(0..=xs.len() - 1).unwrap_or(0);
    xs[i]
}
