#![no_main]
// bytes -> (type, constructor, content, way, (method id, raw arguments)*)  (serves C04, C05)
use libfuzzer_sys::fuzz_target;
include!("common.rs");
use qv::anycase::AnyCase;
use qv::bitgen::BitContent;
use qv::bits::{BitsKind, BvHow, WrapHow};
use qv::elem::ElemTy;
use qv::props::bitsprops::BitsCase;
use qv::props::c04::{ApiCase, Arg, Call, Sym, Way, C04};
use qv::props::quadprops::QuadCase;
use qv::quads::{IntTy, QuadContent, QuadHow, QuadKind};
use qv::seqgen::{Content, SeqCase};
use qv::trees::{How, TreeKind};

fn arg(u: &mut Unstructured) -> Arg {
    match u.int_in_range(0..=6u8).unwrap_or(0) {
        0 => Arg::Small(u.int_in_range(0..=5u8).unwrap_or(0)),
        1 => Arg::Pow(u.int_in_range(0..=63u8).unwrap_or(0), u.int_in_range(-1..=1i8).unwrap_or(0)),
        2 => Arg::N(u.int_in_range(-2..=2i8).unwrap_or(0)),
        3 => Arg::Count(u.int_in_range(-2..=2i8).unwrap_or(0)),
        4 => Arg::Max(u.arbitrary().unwrap_or(0)),
        5 => Arg::Frac(u.arbitrary().unwrap_or(0)),
        _ => Arg::Raw(u.arbitrary().unwrap_or(0)),
    }
}

fuzz_target!(|data: &[u8]| {
    let mut u = Unstructured::new(data);
    let fam = u.int_in_range(0..=2u8).unwrap_or(0);
    let n = u.int_in_range(0..=600usize).unwrap_or(0);
    let plan_seed: u64 = u.arbitrary().unwrap_or(0);
    let base = match fam {
        0 => {
            let kind = pick(&mut u, &TreeKind::ALL);
            let ty = pick(&mut u, &ElemTy::ALL);
            let cap = qv::seqgen::symbol_cap(kind, ty, 1 << 12);
            let s: Vec<u128> = (0..n).map(|_| (u.arbitrary::<u8>().unwrap_or(0) as u128 * 0x0101_0101_0101_0101_0101u128) & cap).collect();
            let how = if s.is_empty() && plan_seed & 1 == 1 { How::Default } else { pick(&mut u, &How::PATHS) };
            AnyCase::Seq(SeqCase { kind, ty, how, content: Content::Explicit(s), tie_seed: plan_seed, plan_seed })
        }
        1 => {
            let kind = pick(&mut u, &BitsKind::ALL);
            let bits: Vec<bool> = (0..n * 4).map(|_| u.arbitrary().unwrap_or(false)).collect();
            let (bvhow, wrap) = if bits.is_empty() && plan_seed & 1 == 1 { (BvHow::Default, WrapHow::Default) } else { (pick(&mut u, &[BvHow::Bools, BvHow::Pushes, BvHow::PosUsize, BvHow::BoolsLoose(plan_seed as u8), BvHow::ExtendPieces(plan_seed as u8)]), pick(&mut u, &[WrapHow::New, WrapHow::From, WrapHow::Collect])) };
            AnyCase::Bits(BitsCase { kind, bvhow, wrap, content: BitContent::Explicit(bits), plan_seed })
        }
        _ => {
            let kind = pick(&mut u, &[QuadKind::Qv, QuadKind::Rs256, QuadKind::Rs512]);
            let q: Vec<u8> = (0..n * 4).map(|_| u.arbitrary::<u8>().unwrap_or(0) & 3).collect();
            let how = if q.is_empty() && plan_seed & 1 == 1 { QuadHow::Default } else { pick(&mut u, &[QuadHow::FromQVector(IntTy::U8), QuadHow::NewSlice(IntTy::U64), QuadHow::Collect(IntTy::I16), QuadHow::CollectLoose(IntTy::U8, plan_seed as u8), QuadHow::BuilderPieces(plan_seed as u8)]) };
            AnyCase::Quad(QuadCase { kind, how, content: QuadContent::Explicit(q), salt: plan_seed & 2, plan_seed })
        }
    };
    let way = pick(&mut u, &[Way::Direct, Way::Clone, Way::Serde, Way::CloneOfSerde, Way::Convert, Way::CloneFrom]);
    let mut calls = Vec::new();
    while let Ok(m) = u.arbitrary::<u8>() {
        let a = arg(&mut u);
        let b = arg(&mut u);
        let s = match u.int_in_range(0..=4u8).unwrap_or(0) {
            0 => Sym::Present(u.arbitrary().unwrap_or(0)),
            1 => Sym::Abs(u.arbitrary().unwrap_or(0)),
            2 => Sym::MaxPlus(u.int_in_range(0..=3u8).unwrap_or(0)),
            3 => Sym::TyMax(u.int_in_range(0..=2u8).unwrap_or(0)),
            _ => Sym::Raw(u.arbitrary().unwrap_or(0)),
        };
        calls.push(Call { m, a, b, s, bits: u.arbitrary().unwrap_or(0) });
        if calls.len() >= 60 {
            break;
        }
    }
    if calls.is_empty() {
        return;
    }
    run_case(&C04, &ApiCase { base, way, calls, sweep: false });
});
