#![no_main]
// bytes -> run-length coded bit vector (dense / sparse group grammar) for RSNarrow, RSWide, DArray
// oracle: bit model (serves C06 C07)
use libfuzzer_sys::fuzz_target;
include!("common.rs");
use qv::bitgen::BitContent;
use qv::bits::{BitsKind, BvHow, WrapHow};
use qv::props::bitsprops::BitsCase;

fuzz_target!(|data: &[u8]| {
    let mut u = Unstructured::new(data);
    let kind = pick(&mut u, &[BitsKind::Narrow, BitsKind::Wide, BitsKind::Da0, BitsKind::Da1]);
    let lm: u8 = (data.len() as u8).wrapping_mul(29);
    let bvhow = pick(&mut u, &[BvHow::Bools, BvHow::Pushes, BvHow::PosUsize, BvHow::PosU32, BvHow::PosI64, BvHow::BoolsLoose(lm), BvHow::PosLoose(lm), BvHow::ExtendPieces(lm)]);
    let wrap = pick(&mut u, &[WrapHow::New, WrapHow::From, WrapHow::Collect]);
    let plan_seed: u64 = u.arbitrary().unwrap_or(0);
    let mut bits: Vec<bool> = Vec::new();
    // grammar: each 2-byte token = (mode, length); mode selects literal bits, a run of zeros, a run
    // of ones, or a sparse stretch (ones separated by `gap` zeros)
    while let Ok(tok) = u.arbitrary::<[u8; 2]>() {
        let len = tok[1] as usize;
        match tok[0] & 7 {
            0 | 1 => {
                for i in 0..8 {
                    bits.push((tok[1] >> i) & 1 == 1);
                }
            }
            2 => bits.extend(std::iter::repeat(false).take(len * 9)),
            3 => bits.extend(std::iter::repeat(true).take(len * 5)),
            4 => bits.extend(std::iter::repeat(false).take(len * 300)),
            5 => {
                let gap = 64 + (tok[0] >> 3) as usize * 8;
                for _ in 0..len * 4 {
                    bits.push(true);
                    bits.extend(std::iter::repeat(false).take(gap));
                }
            }
            6 => bits.extend(std::iter::repeat(true).take(len * 64)),
            _ => {
                for _ in 0..len {
                    bits.push(true);
                    bits.push(false);
                }
            }
        }
        if bits.len() > 150_000 {
            break;
        }
    }
    let id = if matches!(kind, BitsKind::Da0 | BitsKind::Da1) { "C07" } else { "C06" };
    let case = BitsCase { kind, bvhow, wrap, content: BitContent::Explicit(bits), plan_seed };
    let prop = qv::props::bitsprops::BitsProp { id, kinds: &[] };
    run_case(&prop, &case);
});
